#!/bin/bash
# Entry point of the deterministic-simulation checks. See DESIGN.md §8.
#   ./run.sh setup
#   ./run.sh check <property> <quick|thorough>
#   ./run.sh replay <replay-file>
#   ./run.sh selftest determinism|instrumenter|constructs|corpus
cd "$(dirname "$0")" || exit 2
export GOFLAGS=-mod=mod GOPROXY=off GOSUMDB=off GOTOOLCHAIN=local
case "${1:-}" in
  setup)
    mkdir -p dsim/bin evidence replays
    (cd dsim/instrument && go1.26.8 build -o ../bin/instrument .) || exit 2
    # warm the go1.26.8 build cache (std + dependencies + one full harness build)
    scr=$(mktemp -d "${TMPDIR:-/tmp}/dsim-setup-XXXXXX")
    ./dsim/build.sh "$scr" /repo; rc=$?
    rm -rf "$scr"
    [ $rc -eq 0 ] || exit 2
    echo "dsim setup ok"
    ;;
  check|replay|selftest)
    exec python3 dsim/driver.py "$@"
    ;;
  *)
    sed -n '2,7p' "$0"; exit 2;;
esac
