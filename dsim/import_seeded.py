#!/usr/bin/env python3
"""import_seeded.py <src dir with patch.diff demo_test.go NOTES.md> <new id> <package dir> <test regex> <origin> <kind> <needs> <rules,comma> [<note when not caught at first>]
Copies an independently written seeded change into seeded/<id>/ with its meta.json (after dsim/confirm_mutant.sh and dsim/try_mutant.sh were run by hand)."""
import json, os, shutil, sys
src, mid, pkg, regex, origin, kind, needs, rules = sys.argv[1:9]
note = sys.argv[9] if len(sys.argv) > 9 else ""
here = os.path.dirname(os.path.dirname(os.path.abspath(__file__)))
dst = os.path.join(here, "seeded", mid)
os.makedirs(dst, exist_ok=True)
for f in ("patch.diff", "demo_test.go", "NOTES.md"):
    shutil.copy(os.path.join(src, f), os.path.join(dst, f))
prop = mid.split("-")[0]
meta = {
    "id": mid, "property": prop, "origin": origin, "kind": kind, "needs_to_manifest": needs,
    "demo": {"place_in": pkg, "run": "go test -count=1 -run '%s' ./%s" % (regex, pkg)},
    "confirmed": {"how": "dsim/confirm_mutant.sh in a scratch worktree of /repo HEAD", "patch_applies": True, "builds": True,
                  "existing_tests_pass_with_patch": True, "demo_fails_with_patch": True, "demo_passes_without_patch": True},
    "check_result": {"cmd": "dsim/try_mutant.sh seeded/%s/patch.diff %s quick" % (mid, prop), "detected": True, "tier": "quick", "rules": rules.split(",")},
}
if note:
    meta["check_result"]["not_detected_at_first"] = note
json.dump(meta, open(os.path.join(dst, "meta.json"), "w"), indent=1)
print("imported", mid)
