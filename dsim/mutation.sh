#!/bin/bash
# mutation.sh <file relative to /repo> <funcs (comma separated, "" = all)> <parallelism> <property> [<property>...]
# First-order syntactic mutation analysis of the checks (a sensitivity tool, not a check):
# every mutant that compiles and passes the existing tests of its package is run against the
# quick tier of the given properties; survivors are listed for inspection.
set -u
export GOFLAGS=-mod=mod GOPROXY=off GOSUMDB=off GOTOOLCHAIN=local
HERE="$(cd "$(dirname "$0")" && pwd)"
FILE="$1"; FUNCS="$2"; PAR="$3"; shift 3; PROPS="$*"
PKG=$(dirname "$FILE")
OUT=$(mktemp -d "${TMPDIR:-/tmp}/mutation-XXXXXX")
(cd "$HERE/mutate" && go build -o "$OUT/mutate" .) || exit 2
"$OUT/mutate" -file "/repo/$FILE" -funcs "$FUNCS" -out "$OUT/m" || exit 2
one() {
  name="$1"; desc=$(grep -P "^$name\t" "$OUT/m/INDEX.tsv" | cut -f2)
  W=$(mktemp -d "${TMPDIR:-/tmp}/mutrepo-XXXXXX")
  rsync -a --exclude .git /repo/ "$W/"
  cp "$OUT/m/$name.go" "$W/$FILE"
  if ! (cd "$W" && go build ./... >/dev/null 2>&1); then echo -e "$name\tnocompile\t$desc"; rm -rf "$W"; return; fi
  if ! (cd "$W" && timeout 300 go test -count=1 "./$PKG/" >/dev/null 2>&1); then echo -e "$name\tkilled-by-existing-tests\t$desc"; rm -rf "$W"; return; fi
  res="SURVIVED"
  mkdir -p "$W.tmp"
  for p in $PROPS; do
    o=$(cd "$HERE/.." && DSIM_REPO="$W" DSIM_KEEP_EVIDENCE=1 DSIM_WORKERS=4 TMPDIR="$W.tmp" ./run.sh check "$p" quick 2>&1); rc=$?
    if [ $rc = 1 ] && echo "$o" | grep -q "^VIOLATION property=$p "; then rules=$(echo "$o" | grep -o "rule [A-Za-z0-9-]*" | sort -u | head -4 | tr '\n' ' '); res="caught-by-$p $rules"; break; fi
    if [ $rc = 1 ]; then res="trouble-$p exit 1 without a VIOLATION line"; fi
    if [ $rc = 2 ]; then res="trouble-$p $(echo "$o" | tail -1 | cut -c1-100)"; fi
  done
  echo -e "$name\t$res\t$desc"
  rm -rf "$W" "$W.tmp"
}
export -f one; export OUT FILE PKG PROPS HERE
MUTDIR="${MUTATION_OUT:-$HERE/../mutation}"; mkdir -p "$MUTDIR"
REPORT="$MUTDIR/$(echo "$FILE" | tr '/' '_').tsv"
if [ -n "${ONLY_SURVIVORS:-}" ] && [ -f "$ONLY_SURVIVORS" ]; then
  # re-run only the mutants an earlier report lists as SURVIVED / trouble, keep its other lines
  grep -v -P "\t(SURVIVED|trouble)" "$ONLY_SURVIVORS" > "$REPORT.keep"
  grep -P "\t(SURVIVED|trouble)" "$ONLY_SURVIVORS" | cut -f1 | xargs -P "$PAR" -I{} bash -c 'mkdir -p "${TMPDIR:-/tmp}"; one {}' > "$REPORT.new"
  cat "$REPORT.keep" "$REPORT.new" | sort > "$REPORT"; rm -f "$REPORT.keep" "$REPORT.new"
else
cut -f1 "$OUT/m/INDEX.tsv" | xargs -P "$PAR" -I{} bash -c 'mkdir -p "${TMPDIR:-/tmp}"; one {}' | sort > "$REPORT"
fi
rm -rf "$OUT"
echo "report: $REPORT"
cut -f2 "$REPORT" | sed 's/ .*//' | sort | uniq -c
