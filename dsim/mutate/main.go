// Command mutate enumerates first-order syntactic mutants of selected functions
// of one Go source file and writes each as a complete mutated copy of the file
// (dsim/mutation.sh turns them into runs of the checks). It is a sensitivity
// tool for the checks, not part of any check. Stdlib only.
//
//	mutate -file dhcpv4/nclient4/client.go -funcs receiveLoop,send,SendAndRead -out DIR
package main

import (
	"bytes"
	"flag"
	"fmt"
	"go/ast"
	"go/format"
	"go/parser"
	"go/token"
	"os"
	"path/filepath"
	"strings"
)

type mutation struct {
	desc  string
	apply func()
	undo  func()
}

var (
	fset *token.FileSet
	muts []mutation
)

func pos(n ast.Node) string { return fmt.Sprint(fset.Position(n.Pos()).Line) }

func add(desc string, apply, undo func()) { muts = append(muts, mutation{desc, apply, undo}) }

var relSwap = map[token.Token][]token.Token{
	token.EQL: {token.NEQ}, token.NEQ: {token.EQL},
	token.LSS: {token.LEQ, token.GEQ}, token.LEQ: {token.LSS, token.GTR},
	token.GTR: {token.GEQ, token.LEQ}, token.GEQ: {token.GTR, token.LSS},
	token.LAND: {token.LOR}, token.LOR: {token.LAND},
	token.ADD: {token.SUB}, token.SUB: {token.ADD}, token.MUL: {token.QUO},
	token.SHL: {token.SHR}, token.SHR: {token.SHL}, token.AND: {token.OR}, token.OR: {token.AND},
}

func collectExpr(e ast.Expr) {
	ast.Inspect(e, func(n ast.Node) bool {
		switch x := n.(type) {
		case *ast.FuncLit:
			collectBlock(x.Body)
			return false
		case *ast.BinaryExpr:
			for _, op := range relSwap[x.Op] {
				old, nw := x.Op, op
				add(fmt.Sprintf("line %s: %s -> %s", pos(x), old, nw), func() { x.Op = nw }, func() { x.Op = old })
			}
		case *ast.BasicLit:
			if x.Kind == token.INT {
				old := x.Value
				for _, nv := range intVariants(old) {
					nv := nv
					add(fmt.Sprintf("line %s: constant %s -> %s", pos(x), old, nv), func() { x.Value = nv }, func() { x.Value = old })
				}
			}
		}
		return true
	})
}

func intVariants(v string) []string {
	switch v {
	case "0":
		return []string{"1"}
	case "1":
		return []string{"0", "2"}
	}
	var n int
	if _, err := fmt.Sscanf(v, "%d", &n); err == nil && !strings.HasPrefix(v, "0x") && !strings.HasPrefix(v, "0") {
		return []string{fmt.Sprint(n + 1), fmt.Sprint(n - 1)}
	}
	return nil
}

func collectBlock(b *ast.BlockStmt) {
	if b == nil {
		return
	}
	collectList(&b.List)
}

func collectList(list *[]ast.Stmt) {
	l := *list
	for i, s := range l {
		i, s := i, s
		// statement deletion (not declarations: would break compilation)
		switch x := s.(type) {
		case *ast.ExprStmt, *ast.SendStmt, *ast.IncDecStmt, *ast.GoStmt, *ast.DeferStmt:
			add(fmt.Sprintf("line %s: delete statement %T", pos(s), x), func() { (*list)[i] = &ast.EmptyStmt{Implicit: true} }, func() { (*list)[i] = s })
		case *ast.AssignStmt:
			if x.Tok != token.DEFINE {
				add(fmt.Sprintf("line %s: delete assignment", pos(s)), func() { (*list)[i] = &ast.EmptyStmt{Implicit: true} }, func() { (*list)[i] = s })
			}
		case *ast.BranchStmt:
			if x.Tok == token.CONTINUE {
				add(fmt.Sprintf("line %s: continue -> break", pos(s)), func() { x.Tok = token.BREAK }, func() { x.Tok = token.CONTINUE })
				add(fmt.Sprintf("line %s: delete continue", pos(s)), func() { (*list)[i] = &ast.EmptyStmt{Implicit: true} }, func() { (*list)[i] = s })
			}
		}
		// go f() -> f()   and   defer f() -> f()
		switch x := s.(type) {
		case *ast.GoStmt:
			add(fmt.Sprintf("line %s: go call -> plain call", pos(s)), func() { (*list)[i] = &ast.ExprStmt{X: x.Call} }, func() { (*list)[i] = s })
		case *ast.DeferStmt:
			add(fmt.Sprintf("line %s: defer call -> immediate call", pos(s)), func() { (*list)[i] = &ast.ExprStmt{X: x.Call} }, func() { (*list)[i] = s })
		}
		// swap with the next statement (only simple statements)
		if i+1 < len(l) && simple(l[i]) && simple(l[i+1]) {
			add(fmt.Sprintf("line %s: swap with next statement", pos(s)), func() { (*list)[i], (*list)[i+1] = (*list)[i+1], (*list)[i] }, func() { (*list)[i], (*list)[i+1] = (*list)[i+1], (*list)[i] })
		}
		collectStmt(s)
	}
}

func simple(s ast.Stmt) bool {
	switch x := s.(type) {
	case *ast.ExprStmt, *ast.SendStmt, *ast.IncDecStmt:
		return true
	case *ast.AssignStmt:
		return x.Tok != token.DEFINE
	}
	return false
}

func collectStmt(s ast.Stmt) {
	switch x := s.(type) {
	case *ast.BlockStmt:
		collectBlock(x)
	case *ast.ExprStmt:
		collectExpr(x.X)
	case *ast.AssignStmt:
		for _, e := range x.Rhs {
			collectExpr(e)
		}
	case *ast.ReturnStmt:
		for _, e := range x.Results {
			collectExpr(e)
		}
	case *ast.IfStmt:
		if x.Init != nil {
			collectStmt(x.Init)
		}
		cond := x.Cond
		add(fmt.Sprintf("line %s: negate if condition", pos(x)), func() { x.Cond = &ast.UnaryExpr{Op: token.NOT, X: &ast.ParenExpr{X: cond}} }, func() { x.Cond = cond })
		collectExpr(x.Cond)
		collectBlock(x.Body)
		if x.Else != nil {
			collectStmt(x.Else)
		}
	case *ast.ForStmt:
		if x.Cond != nil {
			collectExpr(x.Cond)
		}
		if x.Post != nil {
			collectStmt(x.Post)
		}
		collectBlock(x.Body)
	case *ast.RangeStmt:
		collectBlock(x.Body)
	case *ast.SwitchStmt:
		if x.Tag != nil {
			collectExpr(x.Tag)
		}
		for _, c := range x.Body.List {
			cc := c.(*ast.CaseClause)
			collectList(&cc.Body)
		}
	case *ast.TypeSwitchStmt:
		for _, c := range x.Body.List {
			cc := c.(*ast.CaseClause)
			collectList(&cc.Body)
		}
	case *ast.SelectStmt:
		for i, c := range x.Body.List {
			i, cc := i, c.(*ast.CommClause)
			if cc.Comm != nil && len(x.Body.List) > 1 {
				old := x.Body.List
				add(fmt.Sprintf("line %s: remove select case", pos(cc)), func() {
					nl := append([]ast.Stmt{}, old[:i]...)
					x.Body.List = append(nl, old[i+1:]...)
				}, func() { x.Body.List = old })
			}
			collectList(&cc.Body)
		}
	case *ast.GoStmt:
		collectExpr(x.Call)
	case *ast.DeferStmt:
		collectExpr(x.Call)
	case *ast.LabeledStmt:
		collectStmt(x.Stmt)
	case *ast.IncDecStmt:
		old := x.Tok
		nw := token.DEC
		if old == token.DEC {
			nw = token.INC
		}
		add(fmt.Sprintf("line %s: %s -> %s", pos(x), old, nw), func() { x.Tok = nw }, func() { x.Tok = old })
	case *ast.DeclStmt:
		if gd, ok := x.Decl.(*ast.GenDecl); ok {
			for _, sp := range gd.Specs {
				if vs, ok := sp.(*ast.ValueSpec); ok {
					for _, e := range vs.Values {
						collectExpr(e)
					}
				}
			}
		}
	}
}

func main() {
	file := flag.String("file", "", "source file")
	funcs := flag.String("funcs", "", "comma separated function / method names (empty: all)")
	out := flag.String("out", "", "output directory")
	flag.Parse()
	fset = token.NewFileSet()
	af, err := parser.ParseFile(fset, *file, nil, parser.ParseComments)
	if err != nil {
		fmt.Fprintln(os.Stderr, err)
		os.Exit(2)
	}
	want := map[string]bool{}
	for _, f := range strings.Split(*funcs, ",") {
		if f != "" {
			want[f] = true
		}
	}
	for _, d := range af.Decls {
		fd, ok := d.(*ast.FuncDecl)
		if !ok || fd.Body == nil || (len(want) > 0 && !want[fd.Name.Name]) {
			continue
		}
		before := len(muts)
		collectBlock(fd.Body)
		for i := before; i < len(muts); i++ {
			muts[i].desc = fd.Name.Name + ": " + muts[i].desc
		}
	}
	os.MkdirAll(*out, 0o755)
	n := 0
	var index bytes.Buffer
	for _, m := range muts {
		m.apply()
		var buf bytes.Buffer
		err := format.Node(&buf, fset, af)
		m.undo()
		if err != nil {
			continue
		}
		n++
		name := fmt.Sprintf("m%03d", n)
		os.WriteFile(filepath.Join(*out, name+".go"), buf.Bytes(), 0o644)
		fmt.Fprintf(&index, "%s\t%s\n", name, m.desc)
	}
	os.WriteFile(filepath.Join(*out, "INDEX.tsv"), index.Bytes(), 0o644)
	fmt.Printf("%d mutants written to %s\n", n, *out)
}
