module dsim/mutate

go 1.23.0
