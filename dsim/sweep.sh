#!/bin/bash
# sweep.sh [seed] [tier]: run the given tier of every claimed property one after the other with
# one base seed; prints one line per property. Used for thorough sweeps on the unchanged tree
# (evidence is kept out of /verif: DSIM_KEEP_EVIDENCE).
cd "$(dirname "$0")/.." || exit 2
SEED="${1:-1}"; TIER="${2:-thorough}"
rc=0
for p in ${SWEEP_PROPS:-C18 C14 C08 C12 C13 C11 C10}; do
  t=$(mktemp -d "${TMPDIR:-/tmp}/sweep-XXXXXX")
  out=$(TMPDIR="$t" VERIF_SEED="$SEED" DSIM_KEEP_EVIDENCE=1 ./run.sh check "$p" "$TIER" 2>&1); r=$?
  echo "sweep seed=$SEED $p $TIER exit=$r $(echo "$out" | grep -v '^WARNING' | tail -1 | cut -c1-200)"
  echo "$out" | grep "^VIOLATION\|rule \|KNOWN-FINDING\|not a verdict" | head -5 | cut -c1-300
  [ $r = 0 ] || rc=1
  rm -rf "$t"
done
exit $rc
