//go:build go1.25

// Package zzsimrt is the cooperative, seeded scheduler runtime of the
// deterministic simulation (DESIGN.md §3.3). It is copied into a scratch copy
// of the repository next to the instrumented packages; nothing here is ever
// part of /repo.
//
// Exactly one task executes code of the system under test at any time: the
// one holding the baton. Every instrumented synchronisation point parks the
// task; the scheduler (the root goroutine of a testing/synctest bubble) waits
// for quiescence, computes the ready set and resumes exactly one task, chosen
// from the choice tape.
package zzsimrt

import (
	"bytes"
	"fmt"
	"runtime"
	"runtime/debug"
	"sort"
	"strconv"
	"strings"
	"sync"
	"sync/atomic"
	"testing/synctest"
	"time"
)

type tstate uint8

const (
	stReady   tstate = iota // parked at a yield point, can be resumed
	stRunning               // holds the baton, or is really blocked, or was woken and has not parked yet
	stMutex                 // parked waiting for a modelled mutex
	stDone
)

// Task is one goroutine under scheduler control.
type Task struct {
	ID       int
	Name     string
	SUT      bool // spawned by instrumented code (go statement in a target package)
	adopted  bool
	fresh    bool
	condWait bool
	st       tstate
	site     int
	want     *mstate
	wantRd   bool
	resume   chan struct{}
	vc       vclock // happens-before clock (hb.go)
	inSUT    int    // depth of public SUT calls the harness declared (EnterSUT/LeaveSUT)
	steps    int
	prio     int // PCT priority (0: not assigned yet)
	spin     int // instrumented accesses since the last scheduling point
}

// mstate models one sync.Mutex / sync.RWMutex.
type mstate struct {
	writer  *Task
	readers int
	vc      vclock
}

// Violation is one rule broken in one run.
type Violation struct {
	Rule string `json:"rule"`
	Msg  string `json:"msg"`
}

// Event is one entry of the observable history (DESIGN.md §3.5).
type Event struct {
	Seq  int           // global event sequence number
	T    time.Duration // virtual time since the start of the run
	Task int
	Kind string
	Call int // harness-defined id of the public call / actor the event belongs to (-1: none)
	N    int64
	S    string
	P    interface{} // payload for oracles; never hashed
}

// Sim is one simulated run.
type Sim struct {
	mu      sync.Mutex
	tasks   []*Task
	byGoid  map[int64]*Task
	mutexes map[interface{}]*mstate
	wake    chan struct{}
	running *Task
	live    int

	tape  *Tape
	pools map[*sync.Pool][]any // what sync.Pools hold in this run (PoolGet / PoolPut)

	Start    time.Time
	Steps    int
	MaxSteps int
	Horizon  time.Duration // no wake-up within this much virtual time => deadlock
	MaxVirt  time.Duration

	// scheduling policy for search mode (recorded choices are policy independent)
	SwitchNum, SwitchDen int // probability of leaving the current task when it is ready
	PCTDepth             int // >0: search mode schedules by random task priorities with PCTDepth-1 priority change points (PCT)
	pctChange            []int
	pctNext              int
	StallPermille        int  // probability (‰) of withholding all ready tasks until the clock moves
	AllowStall           bool // stalled-task fault enabled for this run

	Events []Event
	seq    int

	violations []Violation
	abort      bool
	abortWhy   string

	// statistics / reach
	LostControl   int
	Adopted       int
	Stalls        int
	MaxReady      int
	ConcurrentSUT int // scheduler steps at which >= 2 tasks were inside SUT code
	siteHits      map[int]int
	caseHits      map[[2]int]int
	ilHash        uint64 // rolling hash of (task, site) decisions: the interleaving
	Probes        map[string]int
	Faults        map[string]int

	LastStimulusStep int // livelock detection: step of the last harness stimulus
	lastClock        time.Duration
	stepsSinceClock  int
	LivelockSteps    int

	hb    *hbState
	conds map[*sync.Cond]*condState
}

var active atomic.Pointer[Sim]

// Active returns the running simulation (nil outside a run).
func Active() *Sim { return active.Load() }

// New creates a simulation; call inside the synctest bubble.
func New(tape *Tape) *Sim {
	s := &Sim{
		byGoid:        map[int64]*Task{},
		mutexes:       map[interface{}]*mstate{},
		wake:          make(chan struct{}, 1),
		tape:          tape,
		Start:         time.Now(),
		MaxSteps:      200000,
		Horizon:       24 * time.Hour,
		MaxVirt:       24 * time.Hour,
		SwitchNum:     1,
		SwitchDen:     4,
		siteHits:      map[int]int{},
		caseHits:      map[[2]int]int{},
		Probes:        map[string]int{},
		Faults:        map[string]int{},
		LivelockSteps: 50000,
		ilHash:        1469598103934665603,
	}
	s.hb = newHB()
	return s
}

func goid() int64 {
	var buf [40]byte
	n := runtime.Stack(buf[:], false)
	b := buf[len("goroutine "):n]
	i := bytes.IndexByte(b, ' ')
	if i < 0 {
		return -1
	}
	id, _ := strconv.ParseInt(string(b[:i]), 10, 64)
	return id
}

func (s *Sim) cur() *Task {
	g := goid()
	s.mu.Lock()
	t := s.byGoid[g]
	s.mu.Unlock()
	return t
}

// CurTask returns the calling task's id, or -1 when called from a goroutine the scheduler does not own.
func (s *Sim) CurTask() int {
	if t := s.cur(); t != nil {
		return t.ID
	}
	return -1
}

// Now returns virtual time since the start of the run.
func (s *Sim) Now() time.Duration { return time.Since(s.Start) }

func (s *Sim) poke() {
	select {
	case s.wake <- struct{}{}:
	default:
	}
}

// Probe counts a reach probe.
func (s *Sim) Probe(name string) {
	s.mu.Lock()
	s.Probes[name]++
	s.mu.Unlock()
}

// Fault counts an injected fault that actually fired.
func (s *Sim) Fault(name string) {
	s.mu.Lock()
	s.Faults[name]++
	s.mu.Unlock()
}

// Violate records a violation; the run continues (oracles may add more).
func (s *Sim) Violate(rule, format string, a ...interface{}) {
	s.mu.Lock()
	s.violations = append(s.violations, Violation{Rule: rule, Msg: fmt.Sprintf(format, a...)})
	s.mu.Unlock()
}

// Abort records a violation and stops the scheduler at the next step.
func (s *Sim) Abort(rule, format string, a ...interface{}) {
	s.mu.Lock()
	s.violations = append(s.violations, Violation{Rule: rule, Msg: fmt.Sprintf(format, a...)})
	s.abort = true
	s.mu.Unlock()
	s.poke()
}

// Truncate ends the run like Abort but records no violation: the scenario has seen something
// that is another property's business (a call outliving its schedule in a run that judges
// routing) and that would only keep the clock running. What was recorded so far is kept;
// the scenario's oracle is not evaluated on the cut history.
func (s *Sim) Truncate(probe string) {
	s.mu.Lock()
	if s.Probes == nil {
		s.Probes = map[string]int{}
	}
	s.Probes[probe]++
	s.abort = true
	s.mu.Unlock()
	s.poke()
}

// Violations returns what has been recorded so far.
func (s *Sim) Violations() []Violation {
	s.mu.Lock()
	defer s.mu.Unlock()
	return append([]Violation(nil), s.violations...)
}

// Ev appends an event to the history. Only the baton holder (or the root) calls it.
func (s *Sim) Ev(kind string, call int, n int64, str string, p interface{}) int {
	t := s.cur()
	id := -1
	if t != nil {
		id = t.ID
	}
	s.mu.Lock()
	s.seq++
	e := Event{Seq: s.seq, T: time.Since(s.Start), Task: id, Kind: kind, Call: call, N: n, S: str, P: p}
	s.Events = append(s.Events, e)
	s.mu.Unlock()
	return e.Seq
}

// Seq returns the current event sequence number.
func (s *Sim) Seq() int {
	s.mu.Lock()
	defer s.mu.Unlock()
	return s.seq
}

// Stimulus marks a harness stimulus (cancel, close, gate release, traffic) for livelock detection.
func (s *Sim) Stimulus() {
	s.mu.Lock()
	s.LastStimulusStep = s.Steps
	s.mu.Unlock()
}

// ---------------------------------------------------------------- tasks

// Spawn starts fn as a new task. sut marks goroutines created by instrumented code.
func (s *Sim) Spawn(name string, sut bool, site int, fn func()) *Task {
	parent := s.cur()
	s.mu.Lock()
	t := &Task{ID: len(s.tasks), Name: name, SUT: sut, st: stReady, site: site, resume: make(chan struct{})}
	s.tasks = append(s.tasks, t)
	s.live++
	if parent != nil {
		s.hb.fork(parent, t)
	} else {
		s.hb.fresh(t)
	}
	if sut {
		t.inSUT = 1
	}
	s.mu.Unlock()
	go func() {
		g := goid()
		s.mu.Lock()
		s.byGoid[g] = t
		s.mu.Unlock()
		<-t.resume
		defer func() {
			if r := recover(); r != nil {
				if _, ok := r.(killed); !ok {
					s.Abort("panic", "task %d (%s) panicked: %v\n%s", t.ID, t.Name, r, trimStack(debug.Stack()))
				}
			}
			s.mu.Lock()
			t.st = stDone
			s.live--
			delete(s.byGoid, g)
			s.mu.Unlock()
			s.poke()
		}()
		fn()
	}()
	return t
}

type killed struct{}

// trimStack keeps the function names of the frames between the panic and the
// task wrapper; addresses, goroutine numbers and arguments are dropped so that
// the report is identical across runs.
func trimStack(b []byte) string {
	var out []string
	seenPanic := false
	for _, ln := range strings.Split(string(b), "\n") {
		if ln == "" || ln[0] == '\t' || strings.HasPrefix(ln, "goroutine ") || strings.HasPrefix(ln, "created by ") {
			continue
		}
		if i := strings.LastIndexByte(ln, '('); i > 0 {
			ln = ln[:i]
		}
		if !seenPanic {
			if ln == "panic" {
				seenPanic = true
			}
			continue
		}
		if strings.Contains(ln, "zzsimrt.") {
			if strings.Contains(ln, ".Spawn") {
				break
			}
			continue // runtime wrappers (zzsimrt.Close, zzsimrt.Lock, ...) are not interesting
		}
		out = append(out, ln)
		if len(out) >= 12 {
			break
		}
	}
	return "  at " + strings.Join(out, "\n  at ")
}

// Go is what an instrumented `go` statement calls.
func Go(site int, fn func()) {
	s := active.Load()
	if s == nil || s.cur() == nil {
		go fn()
		return
	}
	s.Spawn("sut@"+SiteName(site), true, site, fn)
	s.yield(site, false)
}

// GoTask starts a harness task.
func (s *Sim) GoTask(name string, fn func()) *Task {
	return s.Spawn(name, false, 0, fn)
}

// EnterSUT / LeaveSUT bracket a public call into the system under test made by
// a harness task, for the "tasks inside SUT code" statistic.
func (s *Sim) EnterSUT() {
	if t := s.cur(); t != nil {
		s.mu.Lock()
		t.inSUT++
		s.mu.Unlock()
	}
}

func (s *Sim) LeaveSUT() {
	if t := s.cur(); t != nil {
		s.mu.Lock()
		t.inSUT--
		s.mu.Unlock()
	}
}

// ---------------------------------------------------------------- yield points

// Yield parks the calling task until the scheduler resumes it.
func Yield(site int) {
	if s := active.Load(); s != nil {
		s.yield(site, false)
	}
}

// Woke must directly follow every operation that may really block.
func Woke(site int) {
	if s := active.Load(); s != nil {
		s.yield(site, true)
	}
}

func (s *Sim) yield(site int, woke bool) {
	t := s.cur()
	if t == nil {
		t = s.adopt()
		if t == nil {
			return
		}
	}
	s.mu.Lock()
	if t.fresh {
		t.fresh = false // first scheduling point of an adopted goroutine
	} else if !woke && s.running != t {
		// A task reached an instrumented point without the baton: it was
		// released by something the instrumenter did not recognise.
		s.LostControl++
	}
	t.st = stReady
	t.site = site
	if woke {
		t.site = -site - 1
	}
	s.mu.Unlock()
	s.poke()
	<-t.resume
}

// adopt turns an unknown goroutine that reached an instrumented point (e.g. a
// time.AfterFunc callback) into a task. Root goroutine calls are ignored.
func (s *Sim) adopt() *Task {
	g := goid()
	s.mu.Lock()
	defer s.mu.Unlock()
	if g == s.rootGoid() {
		return nil
	}
	t := &Task{ID: len(s.tasks), Name: "adopted", SUT: true, adopted: true, fresh: true, st: stRunning, resume: make(chan struct{}), inSUT: 1}
	s.tasks = append(s.tasks, t)
	s.byGoid[g] = t
	s.hb.fresh(t)
	// Somebody created this goroutine (time.AfterFunc, context.AfterFunc, a library), and
	// whatever that somebody did before creating it happens before what it does. Who it was
	// is unknown here, so the adopted task starts ordered after everything every task has done
	// so far: more order than there is, which can hide a race and cannot invent one.
	for _, o := range s.tasks {
		if o != t {
			t.vc.join(o.vc)
		}
	}
	t.vc.join(s.hb.extern)
	s.Adopted++
	return t
}

var rootG atomic.Int64

func (s *Sim) rootGoid() int64 { return rootG.Load() }

// Adopted goroutines are not counted as live: the scheduler cannot see them
// finish. They are resumed like any task whenever they park; the run's
// statistics report their number.

// ---------------------------------------------------------------- scheduler

// RunResult says how the scheduler loop ended.
type RunResult struct {
	Deadlock   bool
	Livelock   bool
	StepBudget bool
	VirtBudget bool
	Aborted    bool
	Blocked    []string // tasks still alive at the end (deadlock diagnostics)
}

// Run is the scheduler loop; call from the bubble's root goroutine.
func (s *Sim) Run() RunResult {
	rootG.Store(goid())
	active.Store(s)
	defer active.Store(nil)
	var res RunResult
	horizon := time.NewTimer(s.Horizon)
	defer horizon.Stop()
	for {
		synctest.Wait()
		select {
		case <-s.wake: // every task has settled; any poke is stale
		default:
		}
		s.mu.Lock()
		if s.abort {
			res.Aborted = true
			res.Blocked = s.blockedLocked()
			s.mu.Unlock()
			return res
		}
		var ready []*Task
		nSUT := 0
		for _, t := range s.tasks {
			if t.st == stDone {
				continue
			}
			if t.inSUT > 0 && !t.adopted {
				nSUT++
			}
			switch t.st {
			case stReady:
				ready = append(ready, t)
			case stMutex:
				if t.want.free(t.wantRd) {
					ready = append(ready, t)
				}
			}
		}
		if len(ready) == 0 {
			live := s.live
			s.mu.Unlock()
			if live == 0 {
				return res
			}
			if !s.waitWake(horizon) {
				s.mu.Lock()
				res.Deadlock = true
				res.Blocked = s.blockedLocked()
				s.mu.Unlock()
				return res
			}
			continue
		}
		now := time.Since(s.Start)
		if now != s.lastClock {
			s.lastClock = now
			s.stepsSinceClock = 0
		}
		s.stepsSinceClock++
		s.Steps++
		if s.Steps > s.MaxSteps {
			res.StepBudget = true
			res.Blocked = s.blockedLocked()
			s.mu.Unlock()
			return res
		}
		if s.stepsSinceClock > s.LivelockSteps {
			res.Livelock = true
			res.Blocked = s.blockedLocked()
			s.mu.Unlock()
			return res
		}
		if now > s.MaxVirt {
			res.VirtBudget = true
			res.Blocked = s.blockedLocked()
			s.mu.Unlock()
			return res
		}
		if len(ready) > s.MaxReady {
			s.MaxReady = len(ready)
		}
		if nSUT >= 2 {
			s.ConcurrentSUT++
		}
		// Stalled-task fault: withhold every ready task until the clock moves.
		if s.AllowStall && s.StallPermille > 0 {
			if s.tape.chooseBiased(2, func(r uint64) int {
				if int(r%1000) < s.StallPermille {
					return 1
				}
				return 0
			}) == 1 {
				s.Stalls++
				s.Faults["stall"]++
				d := stallDurations[s.tape.Choose(len(stallDurations))]
				s.mu.Unlock()
				s.waitClock(d)
				continue
			}
		}
		// Order: the task that ran last first (choice 0 = no context switch), then by id.
		sort.Slice(ready, func(i, j int) bool {
			a, b := ready[i], ready[j]
			if (a == s.running) != (b == s.running) {
				return a == s.running
			}
			return a.ID < b.ID
		})
		var idx int
		if s.PCTDepth > 0 {
			// PCT: every task gets a random priority when it first becomes ready; the
			// highest runs until it blocks; at each change point the task then running drops below all.
			if s.pctChange == nil {
				s.pctChange = []int{}
				for i := 1; i < s.PCTDepth; i++ {
					s.pctChange = append(s.pctChange, 1+s.tape.Choose(400))
				}
				sort.Ints(s.pctChange)
			}
			for _, t := range ready {
				if t.prio == 0 {
					t.prio = 1000 + s.tape.Choose(100000)
				}
			}
			for s.pctNext < len(s.pctChange) && s.Steps >= s.pctChange[s.pctNext] {
				if s.running != nil {
					s.running.prio = 1 + s.pctNext
				}
				s.pctNext++
			}
		}
		if len(ready) > 1 && s.PCTDepth > 0 {
			idx = s.tape.chooseBiased(len(ready), func(r uint64) int {
				best := 0
				for i, t := range ready {
					if t.prio > ready[best].prio || (t.prio == ready[best].prio && t.ID < ready[best].ID) {
						best = i
					}
				}
				return best
			})
		} else if len(ready) > 1 {
			curReady := ready[0] == s.running
			idx = s.tape.chooseBiased(len(ready), func(r uint64) int {
				if curReady {
					if int(r%uint64(s.SwitchDen)) >= s.SwitchNum {
						return 0
					}
					return 1 + int((r>>20)%uint64(len(ready)-1))
				}
				return int((r >> 20) % uint64(len(ready)))
			})
		}
		t := ready[idx]
		if t.st == stMutex {
			t.want.take(t, t.wantRd)
			s.hb.acquire(t, &t.want.vc)
			t.want = nil
		}
		t.st = stRunning
		t.spin = 0
		t.steps++
		s.running = t
		s.siteHits[t.site]++
		s.ilHash = (s.ilHash ^ uint64(t.ID+1)) * 1099511628211
		s.ilHash = (s.ilHash ^ uint64(int64(t.site))) * 1099511628211
		s.mu.Unlock()
		t.resume <- struct{}{}
	}
}

// waitWake blocks the scheduler until some task parks or finishes; virtual time
// advances meanwhile. Returns false if nothing happened within the horizon.
func (s *Sim) waitWake(horizon *time.Timer) bool {
	if !horizon.Stop() {
		select {
		case <-horizon.C:
		default:
		}
	}
	horizon.Reset(s.Horizon)
	select {
	case <-s.wake:
		return true
	case <-horizon.C:
		return false
	}
}

var stallDurations = []time.Duration{time.Millisecond, 10 * time.Millisecond, 100 * time.Millisecond, time.Second}

// waitClock withholds all ready tasks until the next timer fires (or d passes).
func (s *Sim) waitClock(d time.Duration) {
	tm := time.NewTimer(d)
	select {
	case <-s.wake:
	case <-tm.C:
	}
	tm.Stop()
}

func (s *Sim) blockedLocked() []string {
	var out []string
	for _, t := range s.tasks {
		if t.st != stDone {
			st := "blocked"
			switch t.st {
			case stReady:
				st = "ready"
			case stMutex:
				st = "mutex"
			}
			out = append(out, fmt.Sprintf("T%d(%s) %s @%s", t.ID, t.Name, st, SiteName(t.site)))
		}
	}
	return out
}

// InterleavingHash identifies the sequence of (task, site) decisions of this run.
func (s *Sim) InterleavingHash() uint64 { return s.ilHash }

// CaseHits returns how often each select case (site, clause index; -1 = default) fired.
func (s *Sim) CaseHits() map[[2]int]int { return s.caseHits }

// SiteHits returns how often each site was resumed from.
func (s *Sim) SiteHits() map[int]int { return s.siteHits }

// LiveSUT returns the number of goroutines started by instrumented code that have not finished.
func (s *Sim) LiveSUT() int {
	s.mu.Lock()
	defer s.mu.Unlock()
	n := 0
	for _, t := range s.tasks {
		if t.SUT && !t.adopted && t.st != stDone {
			n++
		}
	}
	return n
}

// TaskCount returns the number of tasks ever created.
func (s *Sim) TaskCount() int { return len(s.tasks) }

// ---------------------------------------------------------------- modelled mutexes

func (m *mstate) free(rd bool) bool {
	if rd {
		return m.writer == nil
	}
	return m.writer == nil && m.readers == 0
}

func (m *mstate) take(t *Task, rd bool) {
	if rd {
		m.readers++
	} else {
		m.writer = t
	}
}

func (s *Sim) mstateOf(key interface{}) *mstate {
	m := s.mutexes[key]
	if m == nil {
		m = &mstate{}
		s.mutexes[key] = m
	}
	return m
}

func (s *Sim) lock(key interface{}, rd bool, site int) bool {
	t := s.cur()
	if t == nil {
		return false
	}
	s.mu.Lock()
	if t.fresh {
		t.fresh = false
	} else if s.running != t {
		s.LostControl++
	}
	t.st = stMutex
	t.site = site
	t.want = s.mstateOf(key)
	t.wantRd = rd
	s.mu.Unlock()
	s.poke()
	<-t.resume
	return true
}

func (s *Sim) unlock(key interface{}, rd bool) {
	t := s.cur()
	s.mu.Lock()
	m := s.mstateOf(key)
	if rd {
		if m.readers > 0 {
			m.readers--
		}
	} else {
		m.writer = nil
	}
	if t != nil {
		s.hb.release(t, &m.vc)
	}
	s.mu.Unlock()
}

// HeldBy reports whether a modelled mutex is currently write-held (for reach probes).
func (s *Sim) tryLock(key interface{}, rd bool) bool {
	t := s.cur()
	s.mu.Lock()
	defer s.mu.Unlock()
	m := s.mstateOf(key)
	if !m.free(rd) {
		return false
	}
	m.take(t, rd)
	if t != nil {
		s.hb.acquire(t, &m.vc)
	}
	return true
}
