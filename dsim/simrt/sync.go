//go:build go1.25

package zzsimrt

import (
	"context"
	mrand "math/rand"
	"sync"
	"time"
)

// This file holds what the instrumenter rewrites synchronisation operations
// into. Every function falls through to the plain operation when no
// simulation is running or the caller is not a task, so that the instrumented
// packages still pass their own unit tests.

func simTask() (*Sim, *Task) {
	s := active.Load()
	if s == nil {
		return nil, nil
	}
	t := s.cur()
	if t == nil {
		// A goroutine the scheduler did not start (a time.AfterFunc or
		// context.AfterFunc callback, a goroutine started by library code) has
		// reached instrumented code: take it under control here, before it
		// performs the operation, so that its order relative to the other tasks
		// becomes a choice of the tape.
		if t = s.adopt(); t == nil {
			return nil, nil
		}
	}
	return s, t
}

// ---- mutexes (modelled: granted by the scheduler, then really locked uncontended)

func Lock(m *sync.Mutex, site int) {
	if s, _ := simTask(); s != nil && s.lock(m, false, site) {
		m.Lock()
		return
	}
	m.Lock()
}

func Unlock(m *sync.Mutex, site int) {
	m.Unlock()
	if s, _ := simTask(); s != nil {
		s.unlock(m, false)
	}
}

func TryLock(m *sync.Mutex, site int) bool {
	s, _ := simTask()
	if s == nil {
		return m.TryLock()
	}
	s.yield(site, false)
	if !s.tryLock(m, false) {
		return false
	}
	m.Lock()
	return true
}

func RWLock(m *sync.RWMutex, site int) {
	if s, _ := simTask(); s != nil && s.lock(m, false, site) {
		m.Lock()
		return
	}
	m.Lock()
}

func RWUnlock(m *sync.RWMutex, site int) {
	m.Unlock()
	if s, _ := simTask(); s != nil {
		s.unlock(m, false)
	}
}

func RWRLock(m *sync.RWMutex, site int) {
	if s, _ := simTask(); s != nil && s.lock(m, true, site) {
		m.RLock()
		return
	}
	m.RLock()
}

func RWRUnlock(m *sync.RWMutex, site int) {
	m.RUnlock()
	if s, _ := simTask(); s != nil {
		s.unlock(m, true)
	}
}

// ---- WaitGroup, Once

func WGAdd(wg *sync.WaitGroup, n int, site int) {
	if s, t := simTask(); s != nil {
		s.yield(site, false)
		s.mu.Lock()
		s.hb.release(t, s.hb.obj(wg))
		s.mu.Unlock()
	}
	wg.Add(n)
}

func WGDone(wg *sync.WaitGroup, site int) {
	if s, t := simTask(); s != nil {
		s.yield(site, false)
		s.mu.Lock()
		s.hb.release(t, s.hb.obj(wg))
		s.mu.Unlock()
	}
	wg.Done()
}

func WGWait(wg *sync.WaitGroup, site int) {
	s, t := simTask()
	if s == nil {
		wg.Wait()
		return
	}
	s.yield(site, false)
	wg.Wait()
	s.yield(site, true)
	s.mu.Lock()
	s.hb.acquire(t, s.hb.obj(wg))
	s.mu.Unlock()
}

func OnceDo(o *sync.Once, f func(), site int) {
	s, t := simTask()
	if s == nil {
		o.Do(f)
		return
	}
	// Serialise through a modelled mutex keyed by the Once so that its
	// internal (real) mutex is never contended while a task is parked inside f.
	s.lock(o, false, site)
	o.Do(func() {
		f()
		s.mu.Lock()
		s.hb.release(t, s.hb.obj(o))
		s.mu.Unlock()
	})
	s.mu.Lock()
	s.hb.acquire(t, s.hb.obj(o))
	s.mu.Unlock()
	s.unlock(o, false)
}

// OnceFunc, OnceValue and OnceValues replace the functions of package sync of the same
// name: their sync.Once would otherwise live inside the standard library, where a second
// caller blocks on a real mutex while the first is parked inside f.
func OnceFunc(f func(), site int) func() {
	var o sync.Once
	return func() { OnceDo(&o, f, site) }
}

func OnceValue[T any](f func() T, site int) func() T {
	var o sync.Once
	var v T
	return func() T {
		OnceDo(&o, func() { v = f() }, site)
		return v
	}
}

func OnceValues[T1, T2 any](f func() (T1, T2), site int) func() (T1, T2) {
	var o sync.Once
	var v1 T1
	var v2 T2
	return func() (T1, T2) {
		OnceDo(&o, func() { v1, v2 = f() }, site)
		return v1, v2
	}
}

// ---- math/rand's package-level generator, drawn from the tape (64 bits, byte by byte, so
// that minimisation shrinks towards zero)

func randBits(site int) (uint64, bool) {
	s, _ := simTask()
	if s == nil {
		return 0, false
	}
	s.mu.Lock()
	defer s.mu.Unlock()
	var u uint64
	for i := 0; i < 8; i++ {
		u = u<<8 | uint64(s.tape.Choose(256))
	}
	return u, true
}

func RandUint64(site int) uint64 {
	if u, ok := randBits(site); ok {
		return u
	}
	return mrand.Uint64()
}
func RandUint32(site int) uint32   { return uint32(RandUint64(site) >> 32) }
func RandInt63(site int) int64     { return int64(RandUint64(site) >> 1) }
func RandInt64(site int) int64     { return int64(RandUint64(site) >> 1) }
func RandInt31(site int) int32     { return int32(RandUint64(site) >> 33) }
func RandInt32(site int) int32     { return int32(RandUint64(site) >> 33) }
func RandInt(site int) int         { return int(uint(RandUint64(site)) >> 1) }
func RandFloat64(site int) float64 { return float64(RandUint64(site)>>11) / (1 << 53) }
func RandFloat32(site int) float32 { return float32(RandUint64(site)>>40) / (1 << 24) }

func randn(n uint64, site int) uint64 {
	if n == 0 {
		panic("invalid argument to a math/rand function")
	}
	return RandUint64(site) % n
}
func RandIntn(n int, site int) int          { return int(randn(uint64(n), site)) }
func RandInt31n(n int32, site int) int32    { return int32(randn(uint64(n), site)) }
func RandInt32n(n int32, site int) int32    { return int32(randn(uint64(n), site)) }
func RandInt63n(n int64, site int) int64    { return int64(randn(uint64(n), site)) }
func RandInt64n(n int64, site int) int64    { return int64(randn(uint64(n), site)) }
func RandUint32n(n uint32, site int) uint32 { return uint32(randn(uint64(n), site)) }
func RandUint64n(n uint64, site int) uint64 { return randn(n, site) }
func RandUintn(n uint, site int) uint       { return uint(randn(uint64(n), site)) }

// CallCancel / CallCancelCause wrap calls of context cancel functions. Cancelling closes the
// context's Done channel inside package context, out of the monitor's sight: whoever then
// wakes from <-ctx.Done() is ordered after the canceller in reality, so the canceller
// releases into a run-wide "external" clock that every channel receive acquires. This
// claims more order than there is (any receive after any cancel), which can hide a race
// and cannot invent one. On the pinned tree no context cancel function is called by the
// instrumented packages, so the clock stays empty there.
func CallCancel(f context.CancelFunc, site int) {
	externRelease(site)
	f()
}

func CallCancelCause(f context.CancelCauseFunc, cause error, site int) {
	externRelease(site)
	f(cause)
}

func externRelease(site int) {
	if s, t := simTask(); s != nil {
		s.yield(site, false)
		s.mu.Lock()
		s.hb.release(t, &s.hb.extern)
		s.mu.Unlock()
	}
}

// PoolGet / PoolPut replace sync.Pool's methods inside a simulation. What a pool holds
// belongs to the run that put it there: a timer or channel made in one synctest bubble must
// never surface in the next run of the same process (the Go runtime kills the process for
// that), and a run must not depend on what earlier runs left behind. Whether Get reuses an
// item or allocates is decided by the tape - a real pool may be emptied by any GC - and
// which of the pooled items it hands out as well. Put happens-before the Get that returns
// the item, as package sync promises.
func PoolGet(p *sync.Pool, site int) any {
	s, t := simTask()
	if s == nil {
		return p.Get()
	}
	s.yield(site, false)
	s.mu.Lock()
	items := s.pools[p]
	var x any
	got := false
	if n := len(items); n > 0 && s.tape.Choose(4) != 0 {
		i := s.tape.Choose(n)
		x = items[i]
		items[i] = items[n-1]
		s.pools[p] = items[:n-1]
		got = true
		s.hb.acquire(t, s.hb.obj(p))
	}
	s.mu.Unlock()
	if got {
		return x
	}
	if p.New != nil {
		return p.New()
	}
	return nil
}

func PoolPut(p *sync.Pool, x any, site int) {
	s, t := simTask()
	if s == nil {
		p.Put(x)
		return
	}
	s.yield(site, false)
	s.mu.Lock()
	if s.pools == nil {
		s.pools = map[*sync.Pool][]any{}
	}
	s.pools[p] = append(s.pools[p], x)
	s.hb.release(t, s.hb.obj(p))
	s.mu.Unlock()
}

// ---- channels

// Held carries the value received by one case of an instrumented select.
type Held[T any] struct {
	V  T
	Ok bool
}

// Hold returns a holder for values received from c.
func Hold[T any](c <-chan T) *Held[T] { return &Held[T]{} }

func Recv[T any](c <-chan T, site int) T {
	s, t := simTask()
	if s == nil {
		return <-c
	}
	s.yield(site, false)
	v := <-c
	s.yield(site, true)
	s.chanSync(t, c)
	return v
}

func Recv2[T any](c <-chan T, site int) (T, bool) {
	s, t := simTask()
	if s == nil {
		v, ok := <-c
		return v, ok
	}
	s.yield(site, false)
	v, ok := <-c
	s.yield(site, true)
	s.chanSync(t, c)
	return v, ok
}

// SendPre / SendPost bracket a bare send statement.
func SendPre[T any](c chan<- T, site int) {
	if s, t := simTask(); s != nil {
		s.yield(site, false)
		s.chanSync(t, c)
	}
}

func SendPost[T any](c chan<- T, site int) {
	if s, t := simTask(); s != nil {
		s.yield(site, true)
		s.chanSync(t, c)
	}
}

func Close[T any](c chan<- T, site int) {
	if s, t := simTask(); s != nil {
		s.yield(site, false)
		s.chanSync(t, c)
	}
	close(c)
}

// SelEnter is the scheduling point in front of an instrumented select; sends
// lists the channels of its send cases (release side of the happens-before edge).
func SelEnter(site int, sends ...interface{}) {
	if s, t := simTask(); s != nil {
		s.yield(site, false)
		for _, c := range sends {
			s.chanSync(t, c)
		}
	}
}

// Fired records which channel operation of a select completed.
func Fired(c interface{}, site int, idx int) {
	if s, t := simTask(); s != nil {
		s.chanSync(t, c)
		s.mu.Lock()
		s.caseHits[[2]int{site, idx}]++
		s.mu.Unlock()
	}
}

// FiredDefault records that the default case of a select was taken.
func FiredDefault(site int) {
	if s, _ := simTask(); s != nil {
		s.mu.Lock()
		s.caseHits[[2]int{site, -1}]++
		s.mu.Unlock()
	}
}

// LockerLock / LockerUnlock handle calls through the sync.Locker interface.
func LockerLock(l sync.Locker, site int) {
	switch m := l.(type) {
	case *sync.Mutex:
		Lock(m, site)
	case *sync.RWMutex:
		RWLock(m, site)
	default:
		Yield(site)
		l.Lock()
	}
}

func LockerUnlock(l sync.Locker, site int) {
	switch m := l.(type) {
	case *sync.Mutex:
		Unlock(m, site)
	case *sync.RWMutex:
		RWUnlock(m, site)
	default:
		l.Unlock()
	}
}

func (s *Sim) chanSync(t *Task, c interface{}) {
	s.mu.Lock()
	vc := s.hb.ch(c)
	s.hb.acquire(t, vc)
	s.hb.acquire(t, &s.hb.extern) // closes done inside package context (see CallCancel)
	s.hb.release(t, vc)
	s.mu.Unlock()
}

// RangeTop is placed first in the body of a `for range ch` loop and after it.
func RangeTop(c interface{}, site int) {
	if s, t := simTask(); s != nil {
		s.yield(site, true)
		s.chanSync(t, c)
	}
}

// ---- time

func Sleep(d time.Duration, site int) {
	s, _ := simTask()
	if s == nil {
		time.Sleep(d)
		return
	}
	s.yield(site, false)
	time.Sleep(d)
	s.yield(site, true)
}

// ---- atomics: At wraps the address operand, so the yield happens while the
// arguments of the atomic call are evaluated, i.e. just before the operation.

func At[T any](p *T, site int, write bool) *T {
	if s, t := simTask(); s != nil {
		s.yield(site, false)
		s.mu.Lock()
		s.hb.atomic(s, t, p, write, site)
		s.mu.Unlock()
	}
	return p
}

// ---- sync.Cond, fully modelled on top of the modelled mutex

type condState struct {
	waiters []*Task
}

func CondWait(c *sync.Cond, site int) {
	s, t := simTask()
	if s == nil {
		c.Wait()
		return
	}
	var key interface{}
	rd := false
	switch l := c.L.(type) {
	case *sync.Mutex:
		key = l
	case *sync.RWMutex:
		key = l
	default:
		// unknown Locker: fall back to the real primitive
		s.yield(site, false)
		c.Wait()
		s.yield(site, true)
		return
	}
	s.mu.Lock()
	cs := s.condOf(c)
	cs.waiters = append(cs.waiters, t)
	s.mu.Unlock()
	c.L.Unlock()
	s.unlock(key, rd)
	// park until signalled; then compete for the mutex through the model
	s.mu.Lock()
	t.st = stRunning
	t.condWait = true
	s.mu.Unlock()
	s.poke()
	<-t.resume // delivered by CondSignal/Broadcast via the scheduler (state stMutex)
	c.L.Lock()
	s.mu.Lock()
	s.hb.acquire(t, s.hb.obj(c))
	s.mu.Unlock()
}

func (s *Sim) condOf(c *sync.Cond) *condState {
	if s.conds == nil {
		s.conds = map[*sync.Cond]*condState{}
	}
	cs := s.conds[c]
	if cs == nil {
		cs = &condState{}
		s.conds[c] = cs
	}
	return cs
}

func condWake(s *Sim, t *Task, c *sync.Cond, all bool, site int) {
	var key interface{}
	switch l := c.L.(type) {
	case *sync.Mutex:
		key = l
	case *sync.RWMutex:
		key = l
	}
	s.mu.Lock()
	s.hb.release(t, s.hb.obj(c))
	cs := s.condOf(c)
	n := len(cs.waiters)
	if !all && n > 1 {
		n = 1
	}
	for _, w := range cs.waiters[:n] {
		w.condWait = false
		w.st = stMutex
		w.site = site
		w.want = s.mstateOf(key)
		w.wantRd = false
	}
	cs.waiters = cs.waiters[n:]
	s.mu.Unlock()
}

func CondSignal(c *sync.Cond, site int) {
	s, t := simTask()
	if s == nil {
		c.Signal()
		return
	}
	s.yield(site, false)
	switch c.L.(type) {
	case *sync.Mutex, *sync.RWMutex:
		condWake(s, t, c, false, site)
	default:
		c.Signal()
	}
}

func CondBroadcast(c *sync.Cond, site int) {
	s, t := simTask()
	if s == nil {
		c.Broadcast()
		return
	}
	s.yield(site, false)
	switch c.L.(type) {
	case *sync.Mutex, *sync.RWMutex:
		condWake(s, t, c, true, site)
	default:
		c.Broadcast()
	}
}
