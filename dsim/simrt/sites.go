//go:build go1.25

package zzsimrt

import (
	"fmt"
	"sync"
)

// SiteInfo describes one instrumented point.
type SiteInfo struct {
	ID   int
	Kind string // lock, unlock, select, recv, send, close, go, wg, atomic, once, cond, sleep, harness
	Pos  string // file:line
}

var (
	siteMu    sync.Mutex
	siteTable = map[int]SiteInfo{}
	hsites    = map[string]int{}
)

// RegisterSites is called from init functions the instrumenter generates.
func RegisterSites(infos []SiteInfo) {
	siteMu.Lock()
	for _, i := range infos {
		siteTable[i.ID] = i
	}
	siteMu.Unlock()
}

// HSite returns a stable id for a hand-placed harness yield point.
func HSite(name string) int {
	siteMu.Lock()
	defer siteMu.Unlock()
	if id, ok := hsites[name]; ok {
		return id
	}
	// Harness sites live above all instrumenter-assigned ones; the id is a hash of
	// the name so that it does not depend on the order of first use.
	h := uint32(2166136261)
	for i := 0; i < len(name); i++ {
		h = (h ^ uint32(name[i])) * 16777619
	}
	id := 1<<29 | int(h>>4)
	for {
		if o, ok := siteTable[id]; !ok || o.Pos == name {
			break
		}
		id++
	}
	hsites[name] = id
	siteTable[id] = SiteInfo{ID: id, Kind: "harness", Pos: name}
	return id
}

// SiteName renders a site id (negative ids are the "woke" side of a site).
func SiteName(id int) string {
	woke := ""
	if id < 0 {
		id = -id - 1
		woke = "woke:"
	}
	siteMu.Lock()
	i, ok := siteTable[id]
	siteMu.Unlock()
	if !ok {
		if id == 0 {
			return woke + "start"
		}
		return fmt.Sprintf("%ssite%d", woke, id)
	}
	return fmt.Sprintf("%s%s@%s", woke, i.Kind, i.Pos)
}

// Sites returns a copy of the site table.
func Sites() map[int]SiteInfo {
	siteMu.Lock()
	defer siteMu.Unlock()
	m := make(map[int]SiteInfo, len(siteTable))
	for k, v := range siteTable {
		m[k] = v
	}
	return m
}
