//go:build go1.25

package zzsimrt

import (
	"fmt"
	"reflect"
	"unsafe"
)

// Happens-before monitor (DESIGN.md §3.6). Vector clocks are driven only by
// the synchronisation of the system under test, all of which passes through
// this package: modelled mutexes, channel operations, go, WaitGroup, Once,
// Cond, atomics. Harness-mediated ordering (socket, matcher, context, gates)
// creates no edge. Instrumented reads and writes of struct fields and package
// variables of the target packages are checked FastTrack-style.

type vclock []uint32

func (v *vclock) join(o vclock) {
	if len(o) > len(*v) {
		n := make(vclock, len(o))
		copy(n, *v)
		*v = n
	}
	for i, x := range o {
		if x > (*v)[i] {
			(*v)[i] = x
		}
	}
}

func (v vclock) get(i int) uint32 {
	if i < len(v) {
		return v[i]
	}
	return 0
}

func (v *vclock) set(i int, x uint32) {
	if i >= len(*v) {
		n := make(vclock, i+1)
		copy(n, *v)
		*v = n
	}
	(*v)[i] = x
}

type epoch struct {
	task  int
	clock uint32
	site  int
	ok    bool
}

type shadow struct {
	w      epoch
	aw     epoch // last atomic write
	reads  []epoch
	areads []epoch
}

type hbState struct {
	On      bool
	chans   map[interface{}]*vclock
	objs    map[interface{}]*vclock
	cells   map[unsafe.Pointer]*shadow
	seen    map[[2]int]bool
	Checked int
	extern  vclock // released into by context cancel calls, acquired by every channel receive and adopted goroutine
}

func newHB() *hbState {
	return &hbState{chans: map[interface{}]*vclock{}, objs: map[interface{}]*vclock{}, cells: map[unsafe.Pointer]*shadow{}, seen: map[[2]int]bool{}}
}

// EnableHB switches the monitor on for this run.
func (s *Sim) EnableHB() { s.hb.On = true }

// HBChecked returns how many instrumented accesses the monitor examined.
func (s *Sim) HBChecked() int { return s.hb.Checked }

func (h *hbState) fresh(t *Task) {
	t.vc = nil
	t.vc.set(t.ID, 1)
}

func (h *hbState) fork(parent, child *Task) {
	child.vc = append(vclock(nil), parent.vc...)
	child.vc.set(child.ID, 1)
	parent.vc.set(parent.ID, parent.vc.get(parent.ID)+1)
}

func (h *hbState) acquire(t *Task, vc *vclock) {
	t.vc.join(*vc)
}

func (h *hbState) release(t *Task, vc *vclock) {
	vc.join(t.vc)
	t.vc.set(t.ID, t.vc.get(t.ID)+1)
}

// ch returns the clock of a channel. The key is the channel's identity, not the interface
// value it arrives in: the same channel reaches the runtime as chan T (a select case),
// <-chan T (Recv) and chan<- T (Close), three different interface values, and keyed by
// those the close of a channel and the receive it wakes did not meet (found in wave 11:
// "failErr = err; close(failed)" / "<-failed; read failErr" was reported as a race).
func (h *hbState) ch(c interface{}) *vclock {
	var key interface{} = c
	if rv := reflect.ValueOf(c); rv.IsValid() && rv.Kind() == reflect.Chan {
		key = rv.Pointer()
	}
	v := h.chans[key]
	if v == nil {
		v = &vclock{}
		h.chans[key] = v
	}
	return v
}

func (h *hbState) obj(o interface{}) *vclock {
	v := h.objs[o]
	if v == nil {
		v = &vclock{}
		h.objs[o] = v
	}
	return v
}

// JoinEdge lets the harness model a user-level join (e.g. the WaitGroup a real
// program would use to wait for its callers): everything `from` did so far
// happens before what the calling task does next.
func (s *Sim) JoinEdge(from *Task) {
	t := s.cur()
	if t == nil || from == nil {
		return
	}
	s.mu.Lock()
	t.vc.join(from.vc)
	s.mu.Unlock()
}

// Stamp marks "everything the calling task has done so far"; Before reports whether a stamp
// happens before the calling task's present. With them a harness can ask the monitor's
// question about its own callbacks (was the matcher the client ran on another goroutine
// finished, in the happens-before sense, when the call returned?).
type Stamp struct {
	Task  int
	Clock uint32
	OK    bool
}

func (s *Sim) Stamp() Stamp {
	t := s.cur()
	if t == nil {
		return Stamp{}
	}
	s.mu.Lock()
	defer s.mu.Unlock()
	c := t.vc.get(t.ID)
	t.vc.set(t.ID, c+1) // later events of this task are not covered by the stamp
	return Stamp{Task: t.ID, Clock: c, OK: true}
}

func (s *Sim) Before(st Stamp) bool {
	t := s.cur()
	if t == nil || !st.OK {
		return true
	}
	s.mu.Lock()
	defer s.mu.Unlock()
	return st.Task == t.ID || st.Clock <= t.vc.get(st.Task)
}

func ordered(e epoch, t *Task) bool {
	return !e.ok || e.task == t.ID || e.clock <= t.vc.get(e.task)
}

func (h *hbState) cell(p unsafe.Pointer) *shadow {
	c := h.cells[p]
	if c == nil {
		c = &shadow{}
		h.cells[p] = c
	}
	return c
}

func (h *hbState) report(s *Sim, what string, prev epoch, t *Task, site int) {
	key := [2]int{prev.site, site}
	if h.seen[key] {
		return
	}
	h.seen[key] = true
	s.violations = append(s.violations, Violation{Rule: "race", Msg: fmt.Sprintf("%s: task %d at %s is unordered with task %d at %s",
		what, t.ID, SiteName(site), prev.task, SiteName(prev.site))})
}

// access checks one plain access; caller holds s.mu.
func (h *hbState) access(s *Sim, t *Task, p unsafe.Pointer, write bool, site int) {
	h.Checked++
	c := h.cell(p)
	me := epoch{task: t.ID, clock: t.vc.get(t.ID), site: site, ok: true}
	if !ordered(c.w, t) {
		h.report(s, map[bool]string{true: "write/write", false: "read/write"}[write], c.w, t, site)
	}
	if !ordered(c.aw, t) {
		h.report(s, "plain/atomic-write", c.aw, t, site)
	}
	if write {
		for _, r := range c.reads {
			if !ordered(r, t) {
				h.report(s, "write/read", r, t, site)
			}
		}
		for _, r := range c.areads {
			if !ordered(r, t) {
				h.report(s, "write/atomic-read", r, t, site)
			}
		}
		c.w = me
		c.reads = c.reads[:0]
		c.areads = c.areads[:0]
		return
	}
	for i, r := range c.reads {
		if r.task == t.ID {
			c.reads[i] = me
			return
		}
	}
	c.reads = append(c.reads, me)
}

// atomic handles an atomic access: synchronises on the address, and conflicts
// only with plain accesses.
func (h *hbState) atomic(s *Sim, t *Task, p interface{}, write bool, site int) {
	vc := h.obj(p)
	h.acquire(t, vc)
	if h.On {
		h.Checked++
		c := h.cell(ptrOf(p))
		me := epoch{task: t.ID, clock: t.vc.get(t.ID), site: site, ok: true}
		if !ordered(c.w, t) {
			h.report(s, "atomic/plain-write", c.w, t, site)
		}
		if write {
			for _, r := range c.reads {
				if !ordered(r, t) {
					h.report(s, "atomic-write/plain-read", r, t, site)
				}
			}
			c.aw = me
			c.areads = c.areads[:0]
		} else {
			found := false
			for i, r := range c.areads {
				if r.task == t.ID {
					c.areads[i] = me
					found = true
				}
			}
			if !found {
				c.areads = append(c.areads, me)
			}
		}
	}
	h.release(t, vc)
}

type eface struct {
	typ, data unsafe.Pointer
}

func ptrOf(p interface{}) unsafe.Pointer {
	return (*eface)(unsafe.Pointer(&p)).data
}

// R and W are what the instrumenter wraps field / package-variable accesses in:
// `x.f` becomes `*zzsimrt.R(&x.f, site)`.
func R[T any](p *T, site int) *T {
	if s := active.Load(); s != nil && s.hb.On {
		s.mu.Lock()
		spin := false
		if t := s.running; t != nil && t.st == stRunning {
			s.hb.access(s, t, unsafe.Pointer(p), false, site)
			spin = s.spinning(t, site)
		}
		s.mu.Unlock()
		if spin {
			panic(killed{})
		}
	}
	return p
}

func W[T any](p *T, site int) *T {
	if s := active.Load(); s != nil && s.hb.On {
		s.mu.Lock()
		spin := false
		if t := s.running; t != nil && t.st == stRunning {
			s.hb.access(s, t, unsafe.Pointer(p), true, site)
			spin = s.spinning(t, site)
		}
		s.mu.Unlock()
		if spin {
			panic(killed{})
		}
	}
	return p
}

// spinning counts instrumented accesses since the task last reached a scheduling
// point; a task that performs millions of them without ever yielding is busy
// waiting on a plain variable (it would never let the scheduler run anything
// else). Caller holds s.mu.
func (s *Sim) spinning(t *Task, site int) bool {
	t.spin++
	if t.spin < 3000000 {
		return false
	}
	if !s.abort {
		s.violations = append(s.violations, Violation{Rule: "livelock", Msg: fmt.Sprintf("task %d (%s) performed %d field accesses without reaching a scheduling point (busy loop on a plain variable?), last at %s", t.ID, t.Name, t.spin, SiteName(site))})
		s.abort = true
	}
	return true
}
