//go:build go1.25

package zzsimrt

// Tape is the single source of every random decision of a run (DESIGN.md §3.3).
// In search mode entries come from a PRNG and are recorded; in replay mode they
// come from a recorded slice (past the end: 0). Entry 0 always means the
// simplest choice, so zeroing / truncating a tape simplifies the run.
type Tape struct {
	replay   []uint32
	isReplay bool
	pos      int
	rec      []uint32
	state    uint64
	forced   []uint32
}

// NewSearchTape creates a tape drawing from a splitmix64 stream.
func NewSearchTape(seed uint64) *Tape {
	return &Tape{state: seed}
}

// Force makes the first choices of a search tape take the given values (used to
// enumerate a configuration grid by run index); they are recorded like any other.
func (t *Tape) Force(prefix []uint32) { t.forced = prefix }

// NewReplayTape creates a tape replaying recorded choices.
func NewReplayTape(rec []uint32) *Tape {
	return &Tape{replay: rec, isReplay: true}
}

func (t *Tape) next64() uint64 {
	t.state += 0x9e3779b97f4a7c15
	z := t.state
	z = (z ^ (z >> 30)) * 0xbf58476d1ce4e5b9
	z = (z ^ (z >> 27)) * 0x94d049bb133111eb
	return z ^ (z >> 31)
}

// SplitMix derives an independent seed from (base, stream, run).
func SplitMix(base, stream, run uint64) uint64 {
	t := Tape{state: base*0x9e3779b97f4a7c15 ^ stream*0xc2b2ae3d27d4eb4f ^ run*0x165667b19e3779f9}
	t.next64()
	return t.next64()
}

// Choose returns a value in [0,n); uniform in search mode.
func (t *Tape) Choose(n int) int {
	return t.chooseBiased(n, nil)
}

// chooseBiased lets search mode use a non-uniform distribution (pick maps a raw
// 64-bit random value to an index); the recorded entry is the index itself.
func (t *Tape) chooseBiased(n int, pick func(r uint64) int) int {
	if n <= 1 {
		return 0
	}
	var v int
	if t.isReplay {
		if t.pos < len(t.replay) {
			v = int(t.replay[t.pos] % uint32(n))
		}
		t.pos++
		t.rec = append(t.rec, uint32(v))
		return v
	}
	r := t.next64()
	if t.pos < len(t.forced) {
		v = int(t.forced[t.pos] % uint32(n))
		t.pos++
		t.rec = append(t.rec, uint32(v))
		return v
	}
	if pick != nil {
		v = pick(r)
		if v < 0 || v >= n {
			v = 0
		}
	} else {
		v = int((r >> 11) % uint64(n))
	}
	t.pos++
	t.rec = append(t.rec, uint32(v))
	return v
}

// Coin returns true with probability num/den; a zero tape entry means false.
func (t *Tape) Coin(num, den int) bool {
	if num <= 0 {
		// still consume nothing: a disabled fault must not shift the tape
		return false
	}
	if num >= den {
		return t.Choose(2) == 1
	}
	return t.chooseBiased(2, func(r uint64) int {
		if int((r>>11)%uint64(den)) < num {
			return 1
		}
		return 0
	}) == 1
}

// Weighted picks index i with probability w[i]/sum(w); index 0 should be the simplest outcome.
func (t *Tape) Weighted(w ...int) int {
	sum := 0
	for _, x := range w {
		sum += x
	}
	if sum <= 0 {
		return 0
	}
	return t.chooseBiased(len(w), func(r uint64) int {
		x := int((r >> 11) % uint64(sum))
		for i, wi := range w {
			if x < wi {
				return i
			}
			x -= wi
		}
		return 0
	})
}

// Range returns lo + Choose(hi-lo+1).
func (t *Tape) Range(lo, hi int) int {
	if hi <= lo {
		return lo
	}
	return lo + t.Choose(hi-lo+1)
}

// Perm returns a permutation of 0..n-1; all-zero entries give the identity.
func (t *Tape) Perm(n int) []int {
	p := make([]int, n)
	for i := range p {
		p[i] = i
	}
	for i := 0; i < n-1; i++ {
		j := i + t.Choose(n-i)
		if j != i {
			// rotate so that a zero choice keeps source order for the rest
			x := p[j]
			copy(p[i+1:j+1], p[i:j])
			p[i] = x
		}
	}
	return p
}

// Recorded returns the choices made so far.
func (t *Tape) Recorded() []uint32 { return t.rec }

// Pos returns the number of choices consumed.
func (t *Tape) Pos() int { return t.pos }

// Tape returns the run's choice tape.
func (s *Sim) Tape() *Tape { return s.tape }

// Order returns the polling order of an instrumented select with n channel cases.
func Order(site int, n int) []int {
	s := active.Load()
	if s == nil || n <= 1 {
		p := make([]int, n)
		for i := range p {
			p[i] = i
		}
		return p
	}
	s.mu.Lock()
	p := s.tape.Perm(n)
	s.mu.Unlock()
	return p
}
