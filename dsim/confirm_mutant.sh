#!/bin/bash
# confirm_mutant.sh <mutant dir with patch.diff + demo_test.go> <package dir> <test regex>
# Confirms in a scratch worktree of /repo: patch applies, builds, existing tests of the touched
# packages pass, the demonstration fails with the patch and passes without. Removes the worktree.
set -u
export GOFLAGS=-mod=mod GOPROXY=off GOSUMDB=off GOTOOLCHAIN=local
M="$1"; PKG="$2"; RE="$3"
WT=$(mktemp -d /tmp/confirm-XXXXXX)
git -C /repo worktree add -q --detach "$WT" HEAD || exit 2
cd "$WT"
res() { echo "confirm[$(basename $(dirname $M))/$(basename $M)] $*"; }
git apply "$M/patch.diff" || { res "patch does not apply"; git -C /repo worktree remove --force "$WT"; exit 2; }
go build ./... >/dev/null 2>&1 && res "build: ok" || res "build: FAIL"
PKGS=$(git diff --name-only | xargs -n1 dirname | sort -u | sed 's#^#./#')
if go test -count=1 $PKGS >/tmp/confirm-$$.log 2>&1; then res "existing tests with patch: pass"; else res "existing tests with patch: FAIL"; tail -5 /tmp/confirm-$$.log; fi
cp "$M"/demo_test.go "$PKG/zz_demo_mut_test.go"
if go test -count=1 -run "$RE" ./$PKG >/tmp/confirm-$$.log 2>&1; then res "demo with patch: PASSES (bad)"; else res "demo with patch: fails (good)"; fi
git checkout -q -- . 
if go test -count=1 -run "$RE" ./$PKG >/tmp/confirm-$$.log 2>&1; then res "demo without patch: passes (good)"; else res "demo without patch: FAILS (bad)"; tail -5 /tmp/confirm-$$.log; fi
rm -f /tmp/confirm-$$.log
cd /; git -C /repo worktree remove --force "$WT"
