// Package zzconstructs is a self-test target for the instrumenter and the
// scheduler runtime (./run.sh selftest constructs): small concurrent programs
// whose result does not depend on the schedule, written with every
// synchronisation construct the instrumenter rewrites. It is copied into the
// scratch tree, instrumented like the packages under test, and each case is
// run under thousands of seeded schedules; a wrong result, a deadlock or a
// lost-control event means the rewrite or the runtime is wrong.
package zzconstructs

import (
	"context"
	"fmt"
	"sort"
	"strings"
	"sync"
	"sync/atomic"
	"time"
)

// Case is one self-test program.
type Case struct {
	Name string
	Run  func() string
	Want string
}

type counter struct {
	sync.Mutex // promoted Lock/Unlock
	n          int
}

type box struct {
	mu   sync.RWMutex
	vals map[string]int
	hits atomic.Int64
	flag uint32
	once sync.Once
	init int
}

func mutexCounter() string {
	var c counter
	var wg sync.WaitGroup
	for i := 0; i < 4; i++ {
		wg.Add(1)
		go func(k int) {
			defer wg.Done()
			for j := 0; j < 5; j++ {
				c.Lock()
				c.n += k
				c.Unlock()
			}
		}(i)
	}
	wg.Wait()
	return fmt.Sprint(c.n)
}

func rwMap() string {
	b := &box{vals: map[string]int{}}
	var wg sync.WaitGroup
	for i := 0; i < 3; i++ {
		wg.Add(1)
		go func(k int) {
			defer wg.Done()
			b.mu.Lock()
			defer b.mu.Unlock()
			b.vals[fmt.Sprint("k", k)] = k * k
		}(i)
	}
	for i := 0; i < 3; i++ {
		wg.Add(1)
		go func() {
			defer wg.Done()
			b.mu.RLock()
			_ = len(b.vals)
			b.mu.RUnlock()
			b.hits.Add(1)
		}()
	}
	wg.Wait()
	b.mu.RLock()
	defer b.mu.RUnlock()
	var ks []string
	for k, v := range b.vals {
		ks = append(ks, fmt.Sprint(k, "=", v))
	}
	sort.Strings(ks)
	return strings.Join(ks, ",") + fmt.Sprint(" hits=", b.hits.Load())
}

func pipeline() string {
	src := make(chan int)
	sq := make(chan int, 2)
	done := make(chan struct{})
	go func() {
		for i := 1; i <= 6; i++ {
			src <- i
		}
		close(src)
	}()
	go func() {
		for v := range src {
			sq <- v * v
		}
		close(sq)
	}()
	sum := 0
	go func() {
		defer close(done)
		for {
			v, ok := <-sq
			if !ok {
				return
			}
			sum += v
		}
	}()
	<-done
	return fmt.Sprint(sum)
}

func selectKinds() string {
	a := make(chan int, 1)
	b := make(chan string)
	quit := make(chan struct{})
	var got []string
	go func() {
		a <- 7
		b <- "x"
		close(quit)
	}()
	nDefault := 0
loop:
	for {
		select {
		case v := <-a:
			got = append(got, fmt.Sprint("a", v))
		case s, ok := <-b:
			got = append(got, fmt.Sprint("b", s, ok))
		case <-quit:
			if len(got) < 2 {
				quit = nil // both values are still to come; stop polling the closed channel
				continue
			}
			break loop
		default:
			if len(got) == 2 && quit == nil {
				break loop
			}
			nDefault++
			if nDefault > 1000000 {
				return "spin"
			}
			time.Sleep(time.Millisecond)
		}
	}
	sort.Strings(got)
	return strings.Join(got, ",")
}

func sendSelect() string {
	out := make(chan int)
	res := make(chan int)
	go func() {
		total := 0
		for i := 0; i < 3; i++ {
			total += <-out
		}
		res <- total
	}()
	for i := 1; i <= 3; i++ {
		select {
		case out <- i * 10:
		case <-time.After(time.Hour):
			return "timeout"
		}
	}
	return fmt.Sprint(<-res)
}

func condQueue() string {
	var mu sync.Mutex
	cond := sync.NewCond(&mu)
	var q []int
	closed := false
	var wg sync.WaitGroup
	sum := int64(0)
	for w := 0; w < 2; w++ {
		wg.Add(1)
		go func() {
			defer wg.Done()
			for {
				mu.Lock()
				for len(q) == 0 && !closed {
					cond.Wait()
				}
				if len(q) == 0 && closed {
					mu.Unlock()
					return
				}
				v := q[0]
				q = q[1:]
				mu.Unlock()
				atomic.AddInt64(&sum, int64(v))
			}
		}()
	}
	for i := 1; i <= 8; i++ {
		mu.Lock()
		q = append(q, i)
		mu.Unlock()
		cond.Signal()
	}
	mu.Lock()
	closed = true
	mu.Unlock()
	cond.Broadcast()
	wg.Wait()
	return fmt.Sprint(atomic.LoadInt64(&sum))
}

func onceAndCAS() string {
	b := &box{}
	var wg sync.WaitGroup
	winners := int32(0)
	for i := 0; i < 5; i++ {
		wg.Add(1)
		go func() {
			defer wg.Done()
			b.once.Do(func() { b.init++ })
			if atomic.CompareAndSwapUint32(&b.flag, 0, 1) {
				atomic.AddInt32(&winners, 1)
			}
		}()
	}
	wg.Wait()
	return fmt.Sprint(b.init, atomic.LoadUint32(&b.flag), atomic.LoadInt32(&winners))
}

func timersAndContext() string {
	ctx, cancel := context.WithTimeout(context.Background(), 50*time.Millisecond)
	defer cancel()
	tick := time.NewTicker(10 * time.Millisecond)
	defer tick.Stop()
	n := 0
	start := time.Now()
	for {
		select {
		case <-tick.C:
			n++
		case <-ctx.Done():
			return fmt.Sprint(n >= 0, ctx.Err(), time.Since(start) >= 50*time.Millisecond) // (ticks may be dropped when this goroutine is starved)
		}
	}
}

func afterFunc() string {
	ch := make(chan string, 1)
	var mu sync.Mutex
	v := 0
	time.AfterFunc(5*time.Millisecond, func() {
		mu.Lock()
		v = 42
		mu.Unlock()
		ch <- "fired"
	})
	s := <-ch
	mu.Lock()
	defer mu.Unlock()
	return fmt.Sprint(s, v)
}

func tryLock() string {
	var mu sync.Mutex
	mu.Lock()
	ok1 := mu.TryLock()
	mu.Unlock()
	ok2 := mu.TryLock()
	if ok2 {
		mu.Unlock()
	}
	return fmt.Sprint(ok1, ok2)
}

func lockerIface() string {
	var mu sync.Mutex
	var l sync.Locker = &mu
	n := 0
	var wg sync.WaitGroup
	for i := 0; i < 3; i++ {
		wg.Add(1)
		go func() {
			defer wg.Done()
			l.Lock()
			n++
			l.Unlock()
		}()
	}
	wg.Wait()
	return fmt.Sprint(n)
}

func goWithArgs() string {
	res := make(chan string, 3)
	f := func(a int, s string, xs ...int) { res <- fmt.Sprint(a, s, len(xs)) }
	x := 1
	go f(x, "a")
	x = 2
	go f(x, "b", 1, 2)
	ys := []int{1, 2, 3}
	go f(3, "c", ys...)
	var out []string
	for i := 0; i < 3; i++ {
		out = append(out, <-res)
	}
	sort.Strings(out)
	return strings.Join(out, ",")
}

// terminatingSelect has a select as the terminating statement of a function.
func terminatingSelect() string {
	c := make(chan int, 1)
	c <- 5
	f := func() int {
		select {
		case v := <-c:
			return v
		case <-time.After(24 * time.Hour):
			return -1
		}
	}
	return fmt.Sprint(f())
}

func handoff() string {
	// unbuffered rendezvous used as the only synchronisation for a plain variable
	data := 0
	ready := make(chan struct{})
	ack := make(chan struct{})
	go func() {
		data = 99
		ready <- struct{}{}
		<-ack
	}()
	<-ready
	v := data
	ack <- struct{}{}
	return fmt.Sprint(v)
}

// onceValueBlocking: several goroutines call a sync.OnceValue whose function blocks on a
// channel; the callers that lose must wait for the winner (and must not block the scheduler
// on the standard library's own mutex while it is parked).
func onceValueBlocking() string {
	gate := make(chan struct{})
	calls := int32(0)
	get := sync.OnceValue(func() int {
		atomic.AddInt32(&calls, 1)
		<-gate
		return 7
	})
	stop := sync.OnceFunc(func() { close(gate) })
	pair := sync.OnceValues(func() (string, error) { return "p", nil })
	var wg sync.WaitGroup
	sum := int32(0)
	for i := 0; i < 4; i++ {
		wg.Add(1)
		go func() {
			defer wg.Done()
			atomic.AddInt32(&sum, int32(get()))
		}()
	}
	time.Sleep(time.Millisecond)
	stop()
	stop()
	wg.Wait()
	a, err := pair()
	return fmt.Sprint(atomic.LoadInt32(&sum), atomic.LoadInt32(&calls), a, err)
}

type pooled struct{ buf []byte }

var constructPool = sync.Pool{New: func() any { return &pooled{buf: make([]byte, 0, 16)} }}

// poolAndSyncMap: a package-level sync.Pool handing buffers between goroutines (each writes
// without further synchronisation: Put happens-before the Get that returns the item) and a
// sync.Map used as a registry with LoadOrStore / CompareAndDelete.
func poolAndSyncMap() string {
	var reg sync.Map
	var wg sync.WaitGroup
	var total atomic.Int64
	for i := 0; i < 6; i++ {
		wg.Add(1)
		go func(i int) {
			defer wg.Done()
			b := constructPool.Get().(*pooled)
			b.buf = append(b.buf[:0], byte(i), byte(i))
			total.Add(int64(len(b.buf)))
			constructPool.Put(b)
			me := &pooled{}
			if _, loaded := reg.LoadOrStore(i%3, me); !loaded {
				reg.CompareAndDelete(i%3, me)
			}
		}(i)
	}
	wg.Wait()
	left := 0
	reg.Range(func(k, v any) bool { left++; return true })
	return fmt.Sprint(total.Load(), left <= 3)
}

// contextAfterFunc: callbacks run by package context on goroutines of its own
// (context.AfterFunc, cancellation with a cause, a timeout with a cause), synchronising with
// the caller through a mutex and a channel.
func contextAfterFunc() string {
	root, cancel := context.WithCancelCause(context.Background())
	var mu sync.Mutex
	fired := 0
	done := make(chan struct{})
	stopA := context.AfterFunc(root, func() {
		mu.Lock()
		fired++
		mu.Unlock()
		close(done)
	})
	stopB := context.AfterFunc(root, func() {
		mu.Lock()
		fired += 100
		mu.Unlock()
	})
	wasPending := stopB() // unregistered before the cancellation: must never run
	try, cancelTry := context.WithTimeoutCause(root, 20*time.Millisecond, errTryOver)
	defer cancelTry()
	<-try.Done()
	cause1 := context.Cause(try)
	cancel(errShutdown)
	<-done
	mu.Lock()
	defer mu.Unlock()
	return fmt.Sprint(fired, wasPending, stopA(), cause1, context.Cause(root), root.Err())
}

var (
	errTryOver  = fmt.Errorf("try over")
	errShutdown = fmt.Errorf("shutdown")
)

type plainBox struct{ v, w int }

// cancelPublishes: a plain field written before a context is cancelled and read after
// <-ctx.Done(), and one written before time.AfterFunc / context.AfterFunc and read in the
// callback: ordered in reality, by synchronisation inside packages context and time that the
// happens-before monitor cannot see (it must not report them; selftest runs with it on).
func cancelPublishes() string {
	b := &plainBox{}
	ctx, cancel := context.WithCancel(context.Background())
	out := make(chan int, 2)
	go func() {
		<-ctx.Done()
		out <- b.v
	}()
	b.v = 5
	cancel()
	b.w = 6
	time.AfterFunc(time.Millisecond, func() { out <- b.w })
	return fmt.Sprint(<-out + <-out)
}

type failBox struct {
	failed chan struct{}
	err    string
}

// closePublishes: a plain field written before close(ch) and read after a receive from ch,
// the receive sitting in a select, in a plain expression and behind a directional view of
// the channel: one channel, whatever type it is seen through.
func closePublishes() string {
	b := &failBox{failed: make(chan struct{})}
	var ro <-chan struct{} = b.failed
	out := make(chan string, 3)
	go func() {
		select {
		case <-b.failed:
			out <- b.err
		}
	}()
	go func() {
		<-ro
		out <- b.err
	}()
	go func() {
		_, ok := <-b.failed
		out <- fmt.Sprint(b.err, ok)
	}()
	b.err = "x"
	close(b.failed)
	r := []string{<-out, <-out, <-out}
	sort.Strings(r)
	return strings.Join(r, ",")
}

// Cases lists every self-test program with its schedule-independent result.
var Cases = []Case{
	{"mutexCounter", mutexCounter, "30"},
	{"rwMap", rwMap, "k0=0,k1=1,k2=4 hits=3"},
	{"pipeline", pipeline, "91"},
	{"selectKinds", selectKinds, "a7,bxtrue"},
	{"sendSelect", sendSelect, "60"},
	{"condQueue", condQueue, "36"},
	{"onceAndCAS", onceAndCAS, "1 1 1"},
	{"timersAndContext", timersAndContext, "true context deadline exceeded true"},
	{"afterFunc", afterFunc, "fired42"},
	{"tryLock", tryLock, "false true"},
	{"lockerIface", lockerIface, "3"},
	{"goWithArgs", goWithArgs, "1a0,2b2,3c3"},
	{"terminatingSelect", terminatingSelect, "5"},
	{"handoff", handoff, "99"},
	{"onceValueBlocking", onceValueBlocking, "28 1p<nil>"},
	{"poolAndSyncMap", poolAndSyncMap, "12 true"},
	{"cancelPublishes", cancelPublishes, "11"},
	{"closePublishes", closePublishes, "x,x,xfalse"},
	{"contextAfterFunc", contextAfterFunc, "1 true false try over shutdown context canceled"},
}
