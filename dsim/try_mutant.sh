#!/bin/bash
# try_mutant.sh <patch> <property> [tier]: run a check against /repo + patch.
# The patch is applied to a scratch copy of /repo's working tree (DSIM_REPO points the
# check at it), so /repo itself and any background run reading it are not disturbed;
# evidence and replay files go to $TMPDIR/dsim-mutant-out, never into /verif.
# With IN_REPO=1 the patch is applied to /repo itself (git apply) and undone afterwards.
set -u
P="$1"; PROP="$2"; TIER="${3:-quick}"
VERIF="$(cd "$(dirname "$0")/.." && pwd)"
if [ "${IN_REPO:-0}" = 1 ]; then
  cd /repo || exit 2
  git diff --quiet || { echo "try_mutant: /repo is not clean" >&2; exit 2; }
  git apply "$P" || { echo "try_mutant: patch does not apply" >&2; exit 2; }
  (cd "$VERIF" && DSIM_KEEP_EVIDENCE=1 ./run.sh check "$PROP" "$TIER"); rc=$?
  git -C /repo checkout -- .
  git -C /repo clean -fdq
else
  W=$(mktemp -d "${TMPDIR:-/tmp}/mutrepo-XXXXXX")
  rsync -a --exclude .git /repo/ "$W/" || exit 2
  (cd "$W" && git init -q . >/dev/null 2>&1; git apply "$P") || { echo "try_mutant: patch does not apply" >&2; rm -rf "$W"; exit 2; }
  (cd "$VERIF" && DSIM_REPO="$W" DSIM_KEEP_EVIDENCE=1 ./run.sh check "$PROP" "$TIER"); rc=$?
  rm -rf "$W"
fi
echo "try_mutant: $(basename "$(dirname "$P")")/$(basename "$P") $PROP $TIER -> exit $rc"
exit $rc
