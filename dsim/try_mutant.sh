#!/bin/bash
# try_mutant.sh <patch> <property> [tier]: apply a patch to /repo, run the check, undo the patch.
set -u
P="$1"; PROP="$2"; TIER="${3:-quick}"
cd /repo || exit 2
git diff --quiet || { echo "try_mutant: /repo is not clean" >&2; exit 2; }
git apply "$P" || { echo "try_mutant: patch does not apply" >&2; exit 2; }
(cd /verif && DSIM_KEEP_EVIDENCE=1 ./run.sh check "$PROP" "$TIER"); rc=$?
git -C /repo checkout -- . 
git -C /repo clean -fdq
echo "try_mutant: $(basename "$P") $PROP $TIER -> exit $rc"
exit $rc
