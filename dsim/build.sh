#!/bin/bash
# build.sh <scratchdir> [srcdir=/repo]: copy the working tree, instrument it, add runtime + harness, build the worker binary.
# Exit 2 on any trouble (never a verdict).
set -u
export GOFLAGS=-mod=mod GOPROXY=off GOSUMDB=off GOTOOLCHAIN=local
HERE="$(cd "$(dirname "$0")" && pwd)"
SCR="$1"; SRC="${2:-/repo}"
GO=go1.26.8
mkdir -p "$SCR" || exit 2
rm -rf "$SCR/src"
rsync -a --exclude .git "$SRC"/ "$SCR/src/" || exit 2
if [ ! -x "$HERE/bin/instrument" ] || [ "$HERE/instrument/main.go" -nt "$HERE/bin/instrument" ]; then
  (cd "$HERE/instrument" && $GO build -o "$HERE/bin/instrument" .) || { echo "build.sh: instrumenter build failed" >&2; exit 2; }
fi
mkdir -p "$SCR/src/zzsimrt" "$SCR/src/zzsimharness" "$SCR/src/zzconstructs"
cp "$HERE"/constructs/*.go "$SCR/src/zzconstructs/" || exit 2
cp "$HERE"/simrt/*.go "$SCR/src/zzsimrt/" || exit 2
# Every package of the module that the four concurrent packages depend on is put under the
# scheduler: the codec packages for synchronisation and package-level variables, anything else
# (an internal/ helper package a change may introduce for its pending table, worker pool, ...)
# in full. A package the scheduler does not see would block behind its back ("lost control")
# and hide happens-before edges from the monitor.
MOD=$(cd "$SCR/src" && $GO list -m) || exit 2
EXTRA=$(cd "$SCR/src" && $GO list -deps ./dhcpv4/nclient4 ./dhcpv6/nclient6 ./dhcpv4/server4 ./dhcpv6/server6 2>/dev/null | grep "^$MOD/" | sed "s#^$MOD/##" \
  | grep -v -x -e dhcpv4/nclient4 -e dhcpv6/nclient6 -e dhcpv4/server4 -e dhcpv6/server6 -e dhcpv4 -e dhcpv6 -e rfc1035label -e iana | tr '\n' ',')
"$HERE/bin/instrument" -root "$SCR/src" -go $GO -pkgs "${EXTRA}dhcpv4/nclient4,dhcpv6/nclient6,dhcpv4/server4,dhcpv6/server6,zzconstructs" -varpkgs dhcpv4,dhcpv6,rfc1035label,iana -report "$SCR/instrument.json" || { echo "build.sh: instrumentation failed" >&2; exit 2; }
cp "$HERE"/harness/*.go "$SCR/src/zzsimharness/" || exit 2
(cd "$SCR/src" && $GO test -vet=off -c -o "$SCR/sim.test" ./zzsimharness) || { echo "build.sh: harness build failed" >&2; exit 2; }
echo "built $SCR/sim.test"
