// Command instrument rewrites the concurrency-bearing packages of a scratch
// copy of the repository so that every synchronisation operation goes through
// the zzsimrt scheduler runtime (DESIGN.md §3.2). Rewrites are driven by
// go/types, never by names. Stdlib only.
package main

import (
	"regexp"
	"bytes"
	"encoding/json"
	"flag"
	"fmt"
	"go/ast"
	"go/format"
	"go/importer"
	"go/parser"
	"go/token"
	"go/types"
	"io"
	"os"
	"os/exec"
	"path/filepath"
	"sort"
	"strings"
)

const rtPath = "github.com/insomniacslk/dhcp/zzsimrt"
const rtName = "zzsimrt"

type listPkg struct {
	ImportPath string
	Dir        string
	Export     string
	GoFiles    []string
	Name       string
	Error      *struct{ Err string }
}

type siteInfo struct {
	ID   int    `json:"id"`
	Kind string `json:"kind"`
	Pos  string `json:"pos"`
}

type report struct {
	Sites    []siteInfo      `json:"sites"`
	Counts   map[string]int  `json:"counts"`
	Warnings []string        `json:"warnings"`
	Knobs    map[string]bool `json:"knobs"`
}

var (
	rep      = report{Counts: map[string]int{}, Knobs: map[string]bool{}}
	nextSite = 1
	modPath  string
	rootDir  string
)

func fatal(format string, a ...interface{}) {
	fmt.Fprintf(os.Stderr, "instrument: "+format+"\n", a...)
	os.Exit(2)
}

func main() {
	root := flag.String("root", "", "root of the scratch copy (module root)")
	pkgs := flag.String("pkgs", "", "comma separated package dirs relative to root")
	goCmd := flag.String("go", "go", "go command")
	out := flag.String("report", "", "write the JSON report here")
	varPkgs := flag.String("varpkgs", "", "comma separated package dirs instrumented for synchronisation operations and package-level variables only (no struct fields)")
	hb := flag.Bool("hb", true, "instrument field / package-variable accesses for the happens-before monitor")
	flag.Parse()
	if *root == "" || *pkgs == "" {
		fatal("usage: instrument -root DIR -pkgs a,b,c")
	}
	rootDir = *root
	var patterns []string
	varOnly := map[string]bool{}
	if *varPkgs != "" {
		for _, p := range strings.Split(*varPkgs, ",") {
			varOnly[p] = true
		}
		*pkgs = *pkgs + "," + *varPkgs
	}
	for _, p := range strings.Split(*pkgs, ",") {
		patterns = append(patterns, "./"+p)
	}
	cmd := exec.Command(*goCmd, append([]string{"list", "-export", "-deps", "-json=ImportPath,Dir,Export,GoFiles,Name,Error"}, patterns...)...)
	cmd.Dir = *root
	cmd.Stderr = os.Stderr
	outb, err := cmd.Output()
	if err != nil {
		fatal("go list failed: %v", err)
	}
	exports := map[string]string{}
	var all []listPkg
	dec := json.NewDecoder(bytes.NewReader(outb))
	for {
		var p listPkg
		if err := dec.Decode(&p); err == io.EOF {
			break
		} else if err != nil {
			fatal("decoding go list output: %v", err)
		}
		if p.Error != nil {
			fatal("package %s: %s", p.ImportPath, p.Error.Err)
		}
		exports[p.ImportPath] = p.Export
		all = append(all, p)
	}
	absRoot, _ := filepath.Abs(*root)
	targets := map[string]listPkg{}
	fieldTargets = map[string]bool{}
	for _, p := range all {
		rel, err := filepath.Rel(absRoot, p.Dir)
		if err != nil {
			continue
		}
		for _, want := range strings.Split(*pkgs, ",") {
			if filepath.ToSlash(rel) == want {
				targets[p.ImportPath] = p
				if !varOnly[want] {
					fieldTargets[p.ImportPath] = true
				}
				if modPath == "" {
					modPath = strings.TrimSuffix(p.ImportPath, "/"+want)
				}
			}
		}
	}
	if len(targets) == 0 {
		fatal("no target packages found")
	}
	targetSet := map[string]bool{}
	for ip := range targets {
		targetSet[ip] = true
	}
	var order []string
	for ip := range targets {
		order = append(order, ip)
	}
	sort.Strings(order)
	for _, ip := range order {
		instrumentPkg(targets[ip], exports, targetSet, *hb)
	}
	sort.Slice(rep.Sites, func(i, j int) bool { return rep.Sites[i].ID < rep.Sites[j].ID })
	if *out != "" {
		b, _ := json.MarshalIndent(rep, "", " ")
		if err := os.WriteFile(*out, b, 0o644); err != nil {
			fatal("%v", err)
		}
	}
}

// fieldTargets: packages whose struct fields are monitored (the others in the
// target set get synchronisation operations and package-level variables only).
var fieldTargets map[string]bool

type rw struct {
	fset    *token.FileSet
	info    *types.Info
	pkg     *types.Package
	targets map[string]bool
	relDir  string
	hb      bool
	usedRT  bool
	sites   []siteInfo
	tmp     int
}

func (r *rw) site(kind string, pos token.Pos) ast.Expr {
	id := nextSite
	nextSite++
	p := r.fset.Position(pos)
	si := siteInfo{ID: id, Kind: kind, Pos: fmt.Sprintf("%s/%s:%d", r.relDir, filepath.Base(p.Filename), p.Line)}
	r.sites = append(r.sites, si)
	rep.Sites = append(rep.Sites, si)
	rep.Counts[kind]++
	return &ast.BasicLit{Kind: token.INT, Value: fmt.Sprint(id)}
}

func (r *rw) warn(pos token.Pos, format string, a ...interface{}) {
	p := r.fset.Position(pos)
	rep.Warnings = append(rep.Warnings, fmt.Sprintf("%s/%s:%d: %s", r.relDir, filepath.Base(p.Filename), p.Line, fmt.Sprintf(format, a...)))
}

func (r *rw) rt(name string) ast.Expr {
	r.usedRT = true
	return &ast.SelectorExpr{X: ast.NewIdent(rtName), Sel: ast.NewIdent(name)}
}

func (r *rw) call(name string, args ...ast.Expr) *ast.CallExpr {
	return &ast.CallExpr{Fun: r.rt(name), Args: args}
}

func instrumentPkg(p listPkg, exports map[string]string, targets map[string]bool, hb bool) {
	fset := token.NewFileSet()
	var files []*ast.File
	for _, f := range p.GoFiles {
		af, err := parser.ParseFile(fset, filepath.Join(p.Dir, f), nil, parser.ParseComments)
		if err != nil {
			fatal("parse: %v", err)
		}
		files = append(files, af)
	}
	lookup := func(path string) (io.ReadCloser, error) {
		e := exports[path]
		if e == "" {
			return nil, fmt.Errorf("no export data for %s", path)
		}
		return os.Open(e)
	}
	info := &types.Info{
		Types:      map[ast.Expr]types.TypeAndValue{},
		Defs:       map[*ast.Ident]types.Object{},
		Uses:       map[*ast.Ident]types.Object{},
		Selections: map[*ast.SelectorExpr]*types.Selection{},
		Instances:  map[*ast.Ident]types.Instance{},
		Implicits:  map[ast.Node]types.Object{},
	}
	conf := types.Config{Importer: importer.ForCompiler(fset, "gc", lookup), Error: func(err error) {}}
	pkg, err := conf.Check(p.ImportPath, fset, files, info)
	if err != nil {
		fatal("type-check %s: %v", p.ImportPath, err)
	}
	absRoot, _ := filepath.Abs(rootDir)
	rel, _ := filepath.Rel(absRoot, p.Dir)
	var allSites []siteInfo
	for i, af := range files {
		r := &rw{fset: fset, info: info, pkg: pkg, targets: targets, relDir: filepath.ToSlash(rel), hb: hb}
		// Package-level variable initialisers run before any simulation: leave them alone.
		for _, d := range af.Decls {
			if fd, ok := d.(*ast.FuncDecl); ok && fd.Body != nil {
				r.block(fd.Body)
			}
		}
		allSites = append(allSites, r.sites...)
		if !r.usedRT {
			continue
		}
		addImport(af, rtPath)
		// Drop every comment after the package clause: synthetic nodes carry no
		// positions and misplaced comments could corrupt the output. Build
		// constraints and directives in front of the package clause are kept.
		var keep []*ast.CommentGroup
		for _, cg := range af.Comments {
			if cg.End() < af.Package {
				keep = append(keep, cg)
			}
		}
		af.Comments = keep
		stripDocs(af)
		var buf bytes.Buffer
		if err := format.Node(&buf, fset, af); err != nil {
			fatal("print %s: %v", p.GoFiles[i], err)
		}
		outb := buf.Bytes()
		// time.Sleep, sync.OnceValue, ... are replaced by calls into the runtime: if that was the
		// file's only use of the package, its import is left unused and the copy does not compile
		for _, imp := range af.Imports {
			if imp.Name != nil {
				continue
			}
			var name, keep string
			switch imp.Path.Value {
			case `"time"`:
				name, keep = "time", "time.Sleep"
			case `"sync"`:
				name, keep = "sync", "sync.NewCond"
			case `"math/rand"`:
				name, keep = "rand", "rand.Int"
			case `"math/rand/v2"`:
				name, keep = "rand", "rand.Int"
			default:
				continue
			}
			body := outb
			if i := bytes.Index(body, []byte("\n)\n")); i >= 0 && bytes.Contains(body[:i], []byte("import (")) {
				body = body[i:]
			}
			if !regexp.MustCompile(`\b` + name + `\.[A-Za-z]`).Match(body) {
				outb = append(outb, []byte("\nvar _ = "+keep+" // keeps the import used after instrumentation\n")...)
			}
		}
		// go/printer "repairs" build constraints: a file that only has `// +build go1.12` comes
		// back with a `//go:build go1.12` line as well. That line is not harmless: since Go 1.21
		// a //go:build version constraint sets the *language version of the file* (loop
		// variable semantics, range-over-func, ...). The instrumented copy must be compiled
		// under the version the original is, so a //go:build line the source did not have is
		// taken out again.
		if orig, err := os.ReadFile(filepath.Join(p.Dir, p.GoFiles[i])); err == nil && !hasGoBuildLine(orig) && hasGoBuildLine(outb) {
			var kept [][]byte
			for _, ln := range bytes.Split(outb, []byte("\n")) {
				if !bytes.HasPrefix(ln, []byte("//go:build ")) {
					kept = append(kept, ln)
				}
			}
			outb = bytes.Join(kept, []byte("\n"))
		}
		if err := os.WriteFile(filepath.Join(p.Dir, p.GoFiles[i]), outb, 0o644); err != nil {
			fatal("%v", err)
		}
	}
	writeSitesFile(p, pkg, allSites)
}

func hasGoBuildLine(src []byte) bool {
	for _, ln := range bytes.Split(src, []byte("\n")) {
		if bytes.HasPrefix(ln, []byte("//go:build ")) {
			return true
		}
		if bytes.HasPrefix(ln, []byte("package ")) {
			break
		}
	}
	return false
}

func stripDocs(af *ast.File) {
	ast.Inspect(af, func(n ast.Node) bool {
		switch x := n.(type) {
		case *ast.FuncDecl:
			x.Doc = nil
		case *ast.GenDecl:
			x.Doc = nil
		case *ast.Field:
			x.Doc, x.Comment = nil, nil
		case *ast.ValueSpec:
			x.Doc, x.Comment = nil, nil
		case *ast.TypeSpec:
			x.Doc, x.Comment = nil, nil
		case *ast.ImportSpec:
			x.Doc, x.Comment = nil, nil
		}
		return true
	})
}

func addImport(af *ast.File, path string) {
	for _, im := range af.Imports {
		if im.Path.Value == `"`+path+`"` {
			return
		}
	}
	spec := &ast.ImportSpec{Name: ast.NewIdent(rtName), Path: &ast.BasicLit{Kind: token.STRING, Value: `"` + path + `"`}}
	gd := &ast.GenDecl{Tok: token.IMPORT, Specs: []ast.Spec{spec}}
	af.Decls = append([]ast.Decl{gd}, af.Decls...)
	af.Imports = append(af.Imports, spec)
}

func writeSitesFile(p listPkg, pkg *types.Package, sites []siteInfo) {
	var b bytes.Buffer
	fmt.Fprintf(&b, "// Code generated by the dsim instrumenter. DO NOT EDIT.\n\npackage %s\n\n", p.Name)
	fmt.Fprintf(&b, "import %s %q\n\n", rtName, rtPath)
	fmt.Fprintf(&b, "func init() {\n\t%s.RegisterSites([]%s.SiteInfo{\n", rtName, rtName)
	for _, s := range sites {
		fmt.Fprintf(&b, "\t\t{ID: %d, Kind: %q, Pos: %q},\n", s.ID, s.Kind, s.Pos)
	}
	fmt.Fprintf(&b, "\t})\n}\n\n")
	// Knobs: exported setters for unexported tuning fields, emitted only when the
	// fields exist with the expected shape (DESIGN.md §3.4).
	if cl, ok := pkg.Scope().Lookup("Client").(*types.TypeName); ok {
		if st, ok := cl.Type().Underlying().(*types.Struct); ok {
			optObj, _ := pkg.Scope().Lookup("ClientOpt").(*types.TypeName)
			hasCap := false
			for i := 0; i < st.NumFields(); i++ {
				f := st.Field(i)
				if f.Name() == "bufferCap" {
					if bt, ok := f.Type().Underlying().(*types.Basic); ok && bt.Kind() == types.Int {
						hasCap = true
					}
				}
			}
			if optObj != nil {
				if sig, ok := optObj.Type().Underlying().(*types.Signature); ok && sig.Params().Len() == 1 {
					retErr := sig.Results().Len() == 1
					key := p.Name + ".bufferCap"
					rep.Knobs[key] = hasCap
					fmt.Fprintf(&b, "// SimHasBufferCap reports whether the per-transaction buffer capacity knob exists.\nconst SimHasBufferCap = %v\n\n", hasCap)
					body := ""
					if hasCap {
						body = "c.bufferCap = n"
					}
					if retErr {
						fmt.Fprintf(&b, "func SimWithBufferCap(n int) ClientOpt {\n\treturn func(c *Client) error {\n\t\t%s\n\t\t_ = n\n\t\treturn nil\n\t}\n}\n", body)
					} else if sig.Results().Len() == 0 {
						fmt.Fprintf(&b, "func SimWithBufferCap(n int) ClientOpt {\n\treturn func(c *Client) {\n\t\t%s\n\t\t_ = n\n\t}\n}\n", body)
					}
				}
			}
		}
	}
	src, err := format.Source(b.Bytes())
	if err != nil {
		fatal("sites file: %v\n%s", err, b.String())
	}
	if err := os.WriteFile(filepath.Join(p.Dir, "zz_sim_sites.go"), src, 0o644); err != nil {
		fatal("%v", err)
	}
}

// ------------------------------------------------------------------ statements

func (r *rw) block(b *ast.BlockStmt) {
	if b == nil {
		return
	}
	r.stmts(b.List)
}

func (r *rw) stmts(list []ast.Stmt) {
	for i, s := range list {
		list[i] = r.stmt(s)
	}
}

func (r *rw) name(prefix string) string {
	r.tmp++
	return fmt.Sprintf("_zs%d%s", r.tmp, prefix)
}

func (r *rw) stmt(s ast.Stmt) ast.Stmt {
	switch x := s.(type) {
	case nil:
		return nil
	case *ast.BlockStmt:
		r.block(x)
	case *ast.ExprStmt:
		x.X = r.expr(x.X, ctxRead)
	case *ast.AssignStmt:
		r.assign(x)
	case *ast.IncDecStmt:
		x.X = r.expr(x.X, ctxWrite)
	case *ast.DeclStmt:
		if gd, ok := x.Decl.(*ast.GenDecl); ok && gd.Tok == token.VAR {
			for _, sp := range gd.Specs {
				vs := sp.(*ast.ValueSpec)
				if len(vs.Names) == 2 && len(vs.Values) == 1 {
					if u, ok := unparen(vs.Values[0]).(*ast.UnaryExpr); ok && u.Op == token.ARROW {
						vs.Values[0] = r.recv2(u)
						continue
					}
				}
				for i, v := range vs.Values {
					vs.Values[i] = r.expr(v, ctxRead)
				}
			}
		}
	case *ast.ReturnStmt:
		for i, e := range x.Results {
			x.Results[i] = r.expr(e, ctxRead)
		}
	case *ast.DeferStmt:
		x.Call = r.callStmt(x.Call)
	case *ast.GoStmt:
		return r.goStmt(x)
	case *ast.SendStmt:
		return r.sendStmt(x)
	case *ast.IfStmt:
		x.Init = r.simple(x.Init)
		x.Cond = r.expr(x.Cond, ctxRead)
		r.block(x.Body)
		x.Else = r.stmt(x.Else)
	case *ast.ForStmt:
		x.Init = r.simple(x.Init)
		if x.Cond != nil {
			x.Cond = r.expr(x.Cond, ctxRead)
		}
		x.Post = r.simple(x.Post)
		r.block(x.Body)
	case *ast.RangeStmt:
		return r.rangeStmt(x)
	case *ast.SwitchStmt:
		x.Init = r.simple(x.Init)
		if x.Tag != nil {
			x.Tag = r.expr(x.Tag, ctxRead)
		}
		r.block(x.Body)
	case *ast.TypeSwitchStmt:
		x.Init = r.simple(x.Init)
		switch a := x.Assign.(type) {
		case *ast.ExprStmt:
			if ta, ok := a.X.(*ast.TypeAssertExpr); ok {
				ta.X = r.expr(ta.X, ctxRead)
			}
		case *ast.AssignStmt:
			if ta, ok := a.Rhs[0].(*ast.TypeAssertExpr); ok {
				ta.X = r.expr(ta.X, ctxRead)
			}
		}
		r.block(x.Body)
	case *ast.CaseClause:
		for i, e := range x.List {
			if tv, ok := r.info.Types[e]; ok && tv.IsType() {
				continue
			}
			x.List[i] = r.expr(e, ctxRead)
		}
		r.stmts(x.Body)
	case *ast.SelectStmt:
		return r.selectStmt(x, nil)
	case *ast.LabeledStmt:
		if sel, ok := x.Stmt.(*ast.SelectStmt); ok {
			return r.selectStmt(sel, x.Label)
		}
		x.Stmt = r.stmt(x.Stmt)
	case *ast.BranchStmt, *ast.EmptyStmt:
	default:
		r.warn(s.Pos(), "statement %T not handled", s)
	}
	return s
}

// simple handles statements in positions where they cannot be replaced by a block
// (for-init / for-post): expressions are rewritten, statement-level constructs are not.
func (r *rw) simple(s ast.Stmt) ast.Stmt {
	switch x := s.(type) {
	case nil:
		return nil
	case *ast.SendStmt:
		r.warn(x.Pos(), "send statement in for clause is not a scheduling point")
		x.Chan = r.expr(x.Chan, ctxRead)
		x.Value = r.expr(x.Value, ctxRead)
		return x
	}
	return r.stmt(s)
}

func unparen(e ast.Expr) ast.Expr {
	for {
		p, ok := e.(*ast.ParenExpr)
		if !ok {
			return e
		}
		e = p.X
	}
}

func (r *rw) assign(x *ast.AssignStmt) {
	if len(x.Lhs) == 2 && len(x.Rhs) == 1 {
		if u, ok := unparen(x.Rhs[0]).(*ast.UnaryExpr); ok && u.Op == token.ARROW {
			x.Rhs[0] = r.recv2(u)
			if x.Tok != token.DEFINE {
				for i, l := range x.Lhs {
					x.Lhs[i] = r.expr(l, ctxWrite)
				}
			}
			return
		}
	}
	for i, e := range x.Rhs {
		x.Rhs[i] = r.expr(e, ctxRead)
	}
	if x.Tok == token.DEFINE {
		// A redeclaration `a, err := ...` may assign to an existing package
		// variable only if it is in the same scope, which cannot happen inside a
		// function; nothing to do.
		return
	}
	for i, l := range x.Lhs {
		x.Lhs[i] = r.expr(l, ctxWrite)
	}
}

func (r *rw) recv2(u *ast.UnaryExpr) ast.Expr {
	return r.call("Recv2", r.expr(u.X, ctxRead), r.site("recv", u.Pos()))
}

func (r *rw) callStmt(c *ast.CallExpr) *ast.CallExpr {
	e := r.expr(c, ctxRead)
	if ce, ok := e.(*ast.CallExpr); ok {
		return ce
	}
	// cannot happen: a call rewrites to a call
	r.warn(c.Pos(), "call rewritten to a non-call")
	return c
}

func (r *rw) isConstOrNil(e ast.Expr) bool {
	tv, ok := r.info.Types[e]
	if !ok {
		return false
	}
	return tv.Value != nil || tv.IsNil() || tv.IsBuiltin()
}

func (r *rw) isChan(e ast.Expr) bool {
	tv, ok := r.info.Types[e]
	if !ok || tv.Type == nil {
		return false
	}
	_, is := tv.Type.Underlying().(*types.Chan)
	return is
}

func define(name string, e ast.Expr) ast.Stmt {
	return &ast.AssignStmt{Lhs: []ast.Expr{ast.NewIdent(name)}, Tok: token.DEFINE, Rhs: []ast.Expr{e}}
}

func set(lhs ast.Expr, e ast.Expr) ast.Stmt {
	return &ast.AssignStmt{Lhs: []ast.Expr{lhs}, Tok: token.ASSIGN, Rhs: []ast.Expr{e}}
}

func intLit(i int) ast.Expr { return &ast.BasicLit{Kind: token.INT, Value: fmt.Sprint(i)} }

func exprStmt(e ast.Expr) ast.Stmt { return &ast.ExprStmt{X: e} }

func (r *rw) goStmt(g *ast.GoStmt) ast.Stmt {
	site := r.site("go", g.Pos())
	call := g.Call
	var pre []ast.Stmt
	base := r.name("g")
	// function value
	var fun ast.Expr
	hoistFun := true
	if tv, ok := r.info.Types[call.Fun]; ok && (tv.IsBuiltin() || tv.IsType()) {
		hoistFun = false
	}
	if id, ok := unparen(call.Fun).(*ast.Ident); ok {
		if _, gen := r.info.Instances[id]; gen {
			hoistFun = false
		}
	}
	if se, ok := unparen(call.Fun).(*ast.SelectorExpr); ok {
		if _, gen := r.info.Instances[se.Sel]; gen {
			hoistFun = false
		}
	}
	// argument facts must be read before the children are rewritten
	type argFact struct{ inline, tuple bool }
	facts := make([]argFact, len(call.Args))
	for i, a := range call.Args {
		facts[i].inline = r.isConstOrNil(a)
		if tv, ok := r.info.Types[a]; ok {
			if _, isT := tv.Type.(*types.Tuple); isT {
				facts[i].tuple = true
			}
		}
	}
	// A call the runtime replaces (e.g. `go wg.Wait()` -> zzsimrt.WGWait(&wg, site)) is
	// rewritten as a whole and wrapped; its operands are then evaluated in the child,
	// which only matters for receivers that are reassigned – warn.
	if sp := r.special(call); sp != nil {
		r.warn(g.Pos(), "go statement on a runtime-replaced call: operands evaluated in the child")
		return exprStmt(r.call("Go", site, &ast.FuncLit{Type: &ast.FuncType{Params: &ast.FieldList{}}, Body: &ast.BlockStmt{List: []ast.Stmt{exprStmt(sp)}}}))
	}
	if hoistFun {
		fn := base + "f"
		if fl, ok := unparen(call.Fun).(*ast.FuncLit); ok {
			r.block(fl.Body)
			pre = append(pre, define(fn, fl))
		} else {
			pre = append(pre, define(fn, r.expr(call.Fun, ctxRead)))
		}
		fun = ast.NewIdent(fn)
	} else {
		fun = call.Fun
	}
	var args []ast.Expr
	for i, a := range call.Args {
		if facts[i].tuple {
			r.warn(g.Pos(), "go statement with multi-value argument: operands evaluated in the child")
			args = append(args, r.expr(a, ctxRead))
			continue
		}
		if facts[i].inline {
			args = append(args, a)
			continue
		}
		an := fmt.Sprintf("%sa%d", base, i)
		pre = append(pre, define(an, r.expr(a, ctxRead)))
		args = append(args, ast.NewIdent(an))
	}
	inner := &ast.CallExpr{Fun: fun, Args: args, Ellipsis: call.Ellipsis}
	if call.Ellipsis.IsValid() {
		inner.Ellipsis = 1
	}
	lit := &ast.FuncLit{Type: &ast.FuncType{Params: &ast.FieldList{}}, Body: &ast.BlockStmt{List: []ast.Stmt{exprStmt(inner)}}}
	pre = append(pre, exprStmt(r.call("Go", site, lit)))
	return &ast.BlockStmt{List: pre}
}

func (r *rw) sendStmt(x *ast.SendStmt) ast.Stmt {
	site := r.site("send", x.Pos())
	cn := r.name("c")
	ch := r.expr(x.Chan, ctxRead)
	val := r.expr(x.Value, ctxRead)
	return &ast.BlockStmt{List: []ast.Stmt{
		define(cn, ch),
		exprStmt(r.call("SendPre", ast.NewIdent(cn), site)),
		&ast.SendStmt{Chan: ast.NewIdent(cn), Value: val},
		exprStmt(r.call("SendPost", ast.NewIdent(cn), site)),
	}}
}

func (r *rw) rangeStmt(x *ast.RangeStmt) ast.Stmt {
	overChan := r.isChan(x.X)
	if tv, ok := r.info.Types[x.X]; ok && tv.Type != nil {
		if _, isMap := tv.Type.Underlying().(*types.Map); isMap {
			r.warn(x.Pos(), "range over a map: iteration order is a choice the tape does not own")
			rep.Counts["range-map"]++
		}
	}
	if x.Tok == token.ASSIGN {
		if x.Key != nil {
			x.Key = r.expr(x.Key, ctxWrite)
		}
		if x.Value != nil {
			x.Value = r.expr(x.Value, ctxWrite)
		}
	}
	x.X = r.expr(x.X, ctxRead)
	r.block(x.Body)
	if !overChan {
		return x
	}
	site := r.site("range-chan", x.Pos())
	cn := r.name("c")
	pre := define(cn, x.X)
	x.X = ast.NewIdent(cn)
	x.Body.List = append([]ast.Stmt{exprStmt(r.call("RangeTop", ast.NewIdent(cn), site))}, x.Body.List...)
	return &ast.BlockStmt{List: []ast.Stmt{
		pre,
		exprStmt(r.call("Yield", site)),
		x,
		exprStmt(r.call("RangeTop", ast.NewIdent(cn), site)),
	}}
}

func (r *rw) selectStmt(sel *ast.SelectStmt, label *ast.Ident) ast.Stmt {
	site := r.site("select", sel.Pos())
	base := r.name("s")
	idx := base + "i"
	type clause struct {
		cc        *ast.CommClause
		isDefault bool
		isSend    bool
		ch        string
		val       ast.Expr
		holder    string
		lhs       []ast.Expr
		tok       token.Token
		n         int // index among channel cases
	}
	var cls []*clause
	var pre []ast.Stmt
	var sendChans []ast.Expr
	nch := 0
	for i, c := range sel.Body.List {
		cc := c.(*ast.CommClause)
		cl := &clause{cc: cc}
		cls = append(cls, cl)
		if cc.Comm == nil {
			cl.isDefault = true
			continue
		}
		cl.n = nch
		nch++
		cl.ch = fmt.Sprintf("%sc%d", base, i)
		switch m := cc.Comm.(type) {
		case *ast.SendStmt:
			cl.isSend = true
			inline := r.isConstOrNil(m.Value)
			pre = append(pre, define(cl.ch, r.expr(m.Chan, ctxRead)))
			if inline {
				cl.val = m.Value
			} else {
				vn := fmt.Sprintf("%sv%d", base, i)
				pre = append(pre, define(vn, r.expr(m.Value, ctxRead)))
				cl.val = ast.NewIdent(vn)
			}
			sendChans = append(sendChans, ast.NewIdent(cl.ch))
		case *ast.ExprStmt:
			u := unparen(m.X).(*ast.UnaryExpr)
			pre = append(pre, define(cl.ch, r.expr(u.X, ctxRead)))
		case *ast.AssignStmt:
			u := unparen(m.Rhs[0]).(*ast.UnaryExpr)
			pre = append(pre, define(cl.ch, r.expr(u.X, ctxRead)))
			cl.holder = fmt.Sprintf("%sh%d", base, i)
			pre = append(pre, define(cl.holder, r.call("Hold", ast.NewIdent(cl.ch))))
			cl.lhs = m.Lhs
			cl.tok = m.Tok
		}
	}
	pre = append(pre, define(idx, &ast.UnaryExpr{Op: token.SUB, X: intLit(1)}))
	pre = append(pre, exprStmt(r.call("SelEnter", append([]ast.Expr{site}, sendChans...)...)))

	comm := func(cl *clause) ast.Stmt {
		switch {
		case cl.isSend:
			return &ast.SendStmt{Chan: ast.NewIdent(cl.ch), Value: cl.val}
		case cl.holder != "":
			h := ast.NewIdent(cl.holder)
			return &ast.AssignStmt{
				Lhs: []ast.Expr{&ast.SelectorExpr{X: h, Sel: ast.NewIdent("V")}, &ast.SelectorExpr{X: h, Sel: ast.NewIdent("Ok")}},
				Tok: token.ASSIGN,
				Rhs: []ast.Expr{&ast.UnaryExpr{Op: token.ARROW, X: ast.NewIdent(cl.ch)}},
			}
		default:
			return exprStmt(&ast.UnaryExpr{Op: token.ARROW, X: ast.NewIdent(cl.ch)})
		}
	}
	hasDefault := false
	defIdx := 0
	for i, cl := range cls {
		if cl.isDefault {
			hasDefault = true
			defIdx = i
		}
	}
	if nch > 0 {
		// poll phase, in tape order
		k := base + "k"
		var cases []ast.Stmt
		for i, cl := range cls {
			if cl.isDefault {
				continue
			}
			one := &ast.SelectStmt{Body: &ast.BlockStmt{List: []ast.Stmt{
				&ast.CommClause{Comm: comm(cl), Body: []ast.Stmt{set(ast.NewIdent(idx), intLit(i))}},
				&ast.CommClause{},
			}}}
			cases = append(cases, &ast.CaseClause{List: []ast.Expr{intLit(cl.n)}, Body: []ast.Stmt{one}})
		}
		loop := &ast.RangeStmt{
			Key: ast.NewIdent("_"), Value: ast.NewIdent(k), Tok: token.DEFINE,
			X: r.call("Order", site, intLit(nch)),
			Body: &ast.BlockStmt{List: []ast.Stmt{
				&ast.SwitchStmt{Tag: ast.NewIdent(k), Body: &ast.BlockStmt{List: cases}},
				&ast.IfStmt{Cond: &ast.BinaryExpr{X: ast.NewIdent(idx), Op: token.GEQ, Y: intLit(0)}, Body: &ast.BlockStmt{List: []ast.Stmt{&ast.BranchStmt{Tok: token.BREAK}}}},
			}},
		}
		pre = append(pre, loop)
	}
	notFired := &ast.BinaryExpr{X: ast.NewIdent(idx), Op: token.LSS, Y: intLit(0)}
	if hasDefault {
		pre = append(pre, &ast.IfStmt{Cond: notFired, Body: &ast.BlockStmt{List: []ast.Stmt{set(ast.NewIdent(idx), intLit(defIdx))}}})
	} else {
		var blocking []ast.Stmt
		for i, cl := range cls {
			blocking = append(blocking, &ast.CommClause{Comm: comm(cl), Body: []ast.Stmt{set(ast.NewIdent(idx), intLit(i))}})
		}
		pre = append(pre, &ast.IfStmt{Cond: notFired, Body: &ast.BlockStmt{List: []ast.Stmt{
			&ast.SelectStmt{Body: &ast.BlockStmt{List: blocking}},
			exprStmt(r.call("Woke", site)),
		}}})
	}
	// dispatch
	var cases []ast.Stmt
	for i, cl := range cls {
		var body []ast.Stmt
		if cl.isDefault {
			body = append(body, exprStmt(r.call("FiredDefault", site)))
		} else {
			body = append(body, exprStmt(r.call("Fired", ast.NewIdent(cl.ch), site, intLit(i))))
		}
		if cl.holder != "" {
			h := ast.NewIdent(cl.holder)
			rhs := []ast.Expr{&ast.SelectorExpr{X: h, Sel: ast.NewIdent("V")}}
			if len(cl.lhs) == 2 {
				rhs = append(rhs, &ast.SelectorExpr{X: h, Sel: ast.NewIdent("Ok")})
			}
			lhs := cl.lhs
			if cl.tok != token.DEFINE {
				lhs = make([]ast.Expr, len(cl.lhs))
				for j, l := range cl.lhs {
					lhs[j] = r.expr(l, ctxWrite)
				}
			}
			body = append(body, &ast.AssignStmt{Lhs: lhs, Tok: cl.tok, Rhs: rhs})
			if cl.tok == token.DEFINE {
				for _, l := range lhs {
					if id, ok := l.(*ast.Ident); ok && id.Name != "_" {
						body = append(body, set(ast.NewIdent("_"), ast.NewIdent(id.Name)))
					}
				}
			}
		}
		r.stmts(cl.cc.Body)
		body = append(body, cl.cc.Body...)
		cases = append(cases, &ast.CaseClause{List: []ast.Expr{intLit(i)}, Body: body})
	}
	// A select whose cases all end in terminating statements is itself terminating
	// (it may be the last statement of a function); the switch needs a default
	// clause to keep that property. The clause is unreachable.
	cases = append(cases, &ast.CaseClause{Body: []ast.Stmt{exprStmt(&ast.CallExpr{Fun: ast.NewIdent("panic"), Args: []ast.Expr{&ast.BasicLit{Kind: token.STRING, Value: `"zzsimrt: unreachable select dispatch"`}}})}})
	var sw ast.Stmt = &ast.SwitchStmt{Tag: ast.NewIdent(idx), Body: &ast.BlockStmt{List: cases}}
	if label != nil {
		sw = &ast.LabeledStmt{Label: label, Stmt: sw}
	}
	pre = append(pre, sw)
	return &ast.BlockStmt{List: pre}
}

// ------------------------------------------------------------------ expressions

type ctxKind int

const (
	ctxRead ctxKind = iota
	ctxWrite
	ctxAddr   // operand of &: not an access
	ctxPrefix // struct-valued prefix of a longer selector path: not an access by itself
)

func (r *rw) exprs(list []ast.Expr, c ctxKind) {
	for i, e := range list {
		list[i] = r.expr(e, c)
	}
}

func (r *rw) expr(e ast.Expr, c ctxKind) ast.Expr {
	switch x := e.(type) {
	case nil:
		return nil
	case *ast.Ident:
		return r.ident(x, c)
	case *ast.BasicLit:
		return x
	case *ast.ParenExpr:
		x.X = r.expr(x.X, c)
		return x
	case *ast.FuncLit:
		r.block(x.Body)
		return x
	case *ast.CompositeLit:
		isStruct := false
		if tv, ok := r.info.Types[x]; ok && tv.Type != nil {
			t := tv.Type.Underlying()
			if p, ok := t.(*types.Pointer); ok {
				t = p.Elem().Underlying()
			}
			_, isStruct = t.(*types.Struct)
		}
		for i, el := range x.Elts {
			if kv, ok := el.(*ast.KeyValueExpr); ok {
				if !isStruct {
					kv.Key = r.expr(kv.Key, ctxRead)
				}
				kv.Value = r.expr(kv.Value, ctxRead)
			} else {
				x.Elts[i] = r.expr(el, ctxRead)
			}
		}
		return x
	case *ast.SelectorExpr:
		return r.selector(x, c)
	case *ast.IndexExpr:
		if tv, ok := r.info.Types[x.Index]; ok && tv.IsType() {
			return x // generic instantiation
		}
		xc := ctxRead
		if tv, ok := r.info.Types[x.X]; ok && tv.Type != nil {
			switch tv.Type.Underlying().(type) {
			case *types.Map:
				if c == ctxWrite {
					xc = ctxWrite
				}
			case *types.Array:
				// element of an array value: the array is a prefix of the access path
				xc = ctxPrefix
			}
		}
		x.X = r.expr(x.X, xc)
		x.Index = r.expr(x.Index, ctxRead)
		return x
	case *ast.IndexListExpr:
		return x
	case *ast.SliceExpr:
		x.X = r.expr(x.X, ctxRead)
		x.Low = r.expr(x.Low, ctxRead)
		x.High = r.expr(x.High, ctxRead)
		x.Max = r.expr(x.Max, ctxRead)
		return x
	case *ast.TypeAssertExpr:
		x.X = r.expr(x.X, ctxRead)
		return x
	case *ast.StarExpr:
		if tv, ok := r.info.Types[x]; ok && tv.IsType() {
			return x
		}
		x.X = r.expr(x.X, ctxRead)
		return x
	case *ast.UnaryExpr:
		switch x.Op {
		case token.AND:
			x.X = r.expr(x.X, ctxAddr)
			return x
		case token.ARROW:
			return r.call("Recv", r.expr(x.X, ctxRead), r.site("recv", x.Pos()))
		}
		x.X = r.expr(x.X, ctxRead)
		return x
	case *ast.BinaryExpr:
		x.X = r.expr(x.X, ctxRead)
		x.Y = r.expr(x.Y, ctxRead)
		return x
	case *ast.KeyValueExpr:
		x.Key = r.expr(x.Key, ctxRead)
		x.Value = r.expr(x.Value, ctxRead)
		return x
	case *ast.CallExpr:
		return r.callExpr(x)
	case *ast.ArrayType, *ast.MapType, *ast.ChanType, *ast.FuncType, *ast.InterfaceType, *ast.StructType, *ast.Ellipsis:
		return x
	}
	r.warn(e.Pos(), "expression %T not handled", e)
	return e
}

func syncish(t types.Type) bool {
	for {
		switch u := t.(type) {
		case *types.Pointer:
			t = u.Elem()
			continue
		case *types.Named:
			if o := u.Obj(); o != nil && o.Pkg() != nil {
				p := o.Pkg().Path()
				if p == "sync" || p == "sync/atomic" {
					return true
				}
			}
		}
		return false
	}
}

func (r *rw) wrapAccess(e ast.Expr, write bool, pos token.Pos) ast.Expr {
	fn := "R"
	kind := "read"
	if write {
		fn = "W"
		kind = "write"
	}
	return &ast.StarExpr{X: r.call(fn, &ast.UnaryExpr{Op: token.AND, X: e}, r.site(kind, pos))}
}

func (r *rw) ident(id *ast.Ident, c ctxKind) ast.Expr {
	if !r.hb || c == ctxAddr || c == ctxPrefix {
		return id
	}
	v, ok := r.info.Uses[id].(*types.Var)
	if !ok || v.IsField() || v.Pkg() == nil || !r.targets[v.Pkg().Path()] {
		return id
	}
	if v.Parent() != v.Pkg().Scope() {
		return id
	}
	if syncish(v.Type()) {
		return id
	}
	return r.wrapAccess(id, c == ctxWrite, id.Pos())
}

func (r *rw) selector(x *ast.SelectorExpr, c ctxKind) ast.Expr {
	pos := x.Pos()
	sel, isSel := r.info.Selections[x]
	if !isSel {
		// qualified identifier pkg.Name
		if !r.hb || c == ctxAddr || c == ctxPrefix {
			return x
		}
		if v, ok := r.info.Uses[x.Sel].(*types.Var); ok && v.Pkg() != nil && r.targets[v.Pkg().Path()] && !syncish(v.Type()) {
			return r.wrapAccess(x, c == ctxWrite, pos)
		}
		return x
	}
	tv := r.info.Types[x]
	xtv := r.info.Types[x.X]
	// how the prefix is used
	pc := ctxRead
	if xtv.Type != nil {
		if _, isPtr := xtv.Type.Underlying().(*types.Pointer); !isPtr {
			pc = ctxPrefix
		}
	}
	if sel.Kind() != types.FieldVal {
		// method value / call: the receiver is read (or its address taken implicitly)
		if pc == ctxPrefix {
			pc = ctxRead
			// x.f.M() with a pointer-receiver method on an addressable struct value is
			// (&x.f).M(): the address is taken, nothing is read. (Recording a read of x.f there
			// produced a false race report: a struct shares its address with its first field,
			// and that field was a sync.Map that other goroutines use atomically.)
			if fn, ok := sel.Obj().(*types.Func); ok {
				if sig, ok := fn.Type().(*types.Signature); ok && sig.Recv() != nil {
					if _, ptrRecv := sig.Recv().Type().Underlying().(*types.Pointer); ptrRecv && xtv.Addressable() {
						pc = ctxAddr
					}
				}
			}
		}
		x.X = r.expr(x.X, pc)
		return x
	}
	x.X = r.expr(x.X, pc)
	if !r.hb || c == ctxAddr || c == ctxPrefix {
		return x
	}
	if len(sel.Index()) != 1 || !tv.Addressable() {
		return x
	}
	f, ok := sel.Obj().(*types.Var)
	if !ok || f.Pkg() == nil || !fieldTargets[f.Pkg().Path()] || syncish(f.Type()) {
		return x
	}
	return r.wrapAccess(x, c == ctxWrite, pos)
}

// recvAddr returns an expression for the address of the sync object a method is
// called on, making promoted (embedded) receivers explicit.
func (r *rw) recvAddr(se *ast.SelectorExpr) ast.Expr {
	sel := r.info.Selections[se]
	t := r.info.Types[se.X].Type
	pc := ctxPrefix
	if t != nil {
		if _, isPtr := t.Underlying().(*types.Pointer); isPtr {
			pc = ctxRead
		}
	}
	recv := r.expr(se.X, pc)
	if sel != nil {
		idx := sel.Index()
		for _, i := range idx[:len(idx)-1] {
			if p, ok := t.Underlying().(*types.Pointer); ok {
				t = p.Elem()
			}
			st, ok := t.Underlying().(*types.Struct)
			if !ok {
				break
			}
			f := st.Field(i)
			recv = &ast.SelectorExpr{X: recv, Sel: ast.NewIdent(f.Name())}
			t = f.Type()
		}
	}
	if _, ok := t.Underlying().(*types.Pointer); ok {
		return recv
	}
	return &ast.UnaryExpr{Op: token.AND, X: recv}
}

// special returns the runtime replacement of a call on a synchronisation
// primitive, or nil.
func (r *rw) special(c *ast.CallExpr) ast.Expr {
	// a call of a context.CancelFunc / CancelCauseFunc value: the close of the context's Done
	// channel happens inside package context, where the happens-before monitor cannot see
	// it; the call is routed through the runtime so that it counts as a release (§3.6)
	if tv, ok := r.info.Types[c.Fun]; ok && tv.Type != nil && !tv.IsType() {
		if n, ok := tv.Type.(*types.Named); ok && n.Obj() != nil && n.Obj().Pkg() != nil && n.Obj().Pkg().Path() == "context" {
			switch n.Obj().Name() {
			case "CancelFunc":
				if len(c.Args) == 0 {
					return r.call("CallCancel", r.expr(c.Fun, ctxRead), r.site("cancel", c.Pos()))
				}
			case "CancelCauseFunc":
				if len(c.Args) == 1 {
					return r.call("CallCancelCause", r.expr(c.Fun, ctxRead), r.expr(c.Args[0], ctxRead), r.site("cancel", c.Pos()))
				}
			}
		}
	}
	switch f := unparen(c.Fun).(type) {
	case *ast.Ident:
		if b, ok := r.info.Uses[f].(*types.Builtin); ok {
			switch b.Name() {
			case "close":
				return r.call("Close", r.expr(c.Args[0], ctxRead), r.site("close", c.Pos()))
			}
		}
	case *ast.SelectorExpr:
		fn, ok := r.info.Uses[f.Sel].(*types.Func)
		if !ok || fn.Pkg() == nil {
			return nil
		}
		full := fn.FullName()
		switch fn.Pkg().Path() {
		case "sync":
			m := map[string][2]string{
				"(*sync.Mutex).Lock":      {"Lock", "lock"},
				"(*sync.Mutex).Unlock":    {"Unlock", "unlock"},
				"(*sync.Mutex).TryLock":   {"TryLock", "lock"},
				"(*sync.RWMutex).Lock":    {"RWLock", "lock"},
				"(*sync.RWMutex).Unlock":  {"RWUnlock", "unlock"},
				"(*sync.RWMutex).RLock":   {"RWRLock", "lock"},
				"(*sync.RWMutex).RUnlock": {"RWRUnlock", "unlock"},
				"(*sync.WaitGroup).Done":  {"WGDone", "wg"},
				"(*sync.WaitGroup).Wait":  {"WGWait", "wg"},
				"(*sync.Cond).Wait":       {"CondWait", "cond"},
				"(*sync.Cond).Signal":     {"CondSignal", "cond"},
				"(*sync.Cond).Broadcast":  {"CondBroadcast", "cond"},
				"(sync.Locker).Lock":      {"LockerLock", "lock"},
				"(sync.Locker).Unlock":    {"LockerUnlock", "unlock"},
			}
			if e, ok := m[full]; ok {
				if strings.HasPrefix(full, "(sync.Locker)") {
					return r.call(e[0], r.expr(f.X, ctxRead), r.site(e[1], c.Pos()))
				}
				return r.call(e[0], r.recvAddr(f), r.site(e[1], c.Pos()))
			}
			switch full {
			case "(*sync.WaitGroup).Add":
				return r.call("WGAdd", r.recvAddr(f), r.expr(c.Args[0], ctxRead), r.site("wg", c.Pos()))
			case "(*sync.Once).Do":
				return r.call("OnceDo", r.recvAddr(f), r.expr(c.Args[0], ctxRead), r.site("once", c.Pos()))
			}
			switch {
			case strings.HasPrefix(full, "(*sync.Map)."):
				// every sync.Map method is an atomic read-modify-write of the map as far as the
				// scheduler and the happens-before monitor are concerned
				args := make([]ast.Expr, len(c.Args))
				for i, a := range c.Args {
					args[i] = r.expr(a, ctxRead)
				}
				return &ast.CallExpr{
					Fun:      &ast.SelectorExpr{X: r.call("At", r.recvAddr(f), r.site("atomic", c.Pos()), ast.NewIdent("true")), Sel: f.Sel},
					Args:     args,
					Ellipsis: c.Ellipsis,
				}
			case full == "(*sync.Pool).Get":
				return r.call("PoolGet", r.recvAddr(f), r.site("pool", c.Pos()))
			case full == "(*sync.Pool).Put":
				return r.call("PoolPut", r.recvAddr(f), r.expr(c.Args[0], ctxRead), r.site("pool", c.Pos()))
			case full == "sync.OnceFunc" || full == "sync.OnceValue" || full == "sync.OnceValues":
				return r.call(fn.Name(), r.expr(c.Args[0], ctxRead), r.site("once", c.Pos()))
			}
			if strings.HasPrefix(full, "(*sync.") {
				r.warn(c.Pos(), "sync method %s is not modelled", full)
			}
		case "sync/atomic":
			sig := fn.Type().(*types.Signature)
			write := !strings.HasPrefix(fn.Name(), "Load")
			wlit := ast.NewIdent(fmt.Sprint(write))
			if sig.Recv() == nil {
				if len(c.Args) == 0 {
					return nil
				}
				args := make([]ast.Expr, len(c.Args))
				for i, a := range c.Args {
					if i == 0 {
						args[i] = r.call("At", r.expr(a, ctxAddr), r.site("atomic", c.Pos()), wlit)
					} else {
						args[i] = r.expr(a, ctxRead)
					}
				}
				c.Args = args
				return c
			}
			// method on an atomic type
			addr := r.recvAddr(f)
			args := make([]ast.Expr, len(c.Args))
			for i, a := range c.Args {
				args[i] = r.expr(a, ctxRead)
			}
			return &ast.CallExpr{
				Fun:      &ast.SelectorExpr{X: r.call("At", addr, r.site("atomic", c.Pos()), wlit), Sel: f.Sel},
				Args:     args,
				Ellipsis: c.Ellipsis,
			}
		case "math/rand", "math/rand/v2":
			// the package-level generator is seeded by the runtime: a source of nondeterminism no
			// replay could reproduce (a change that adds jitter to a timeout brought it in). Its
			// common functions draw from the tape inside a simulation.
			if sig, ok := fn.Type().(*types.Signature); ok && sig.Recv() == nil {
				var name string
				switch fn.Name() {
				case "Float64", "Float32", "Int", "Int31", "Int32", "Int63", "Int64", "Uint32", "Uint64":
					if len(c.Args) == 0 {
						name = "Rand" + fn.Name()
					}
				case "Intn", "IntN", "Int31n", "Int32N", "Int63n", "Int64N", "Uint32N", "Uint64N", "UintN":
					if len(c.Args) == 1 {
						name = "Rand" + strings.ToUpper(fn.Name()[:1]) + strings.ToLower(fn.Name()[1:])
					}
				}
				if name != "" {
					args := []ast.Expr{}
					for _, a := range c.Args {
						args = append(args, r.expr(a, ctxRead))
					}
					args = append(args, r.site("rand", c.Pos()))
					return r.call(name, args...)
				}
				r.warn(c.Pos(), "%s draws from the runtime-seeded generator: not under the tape", full)
			}
		case "time":
			if full == "time.Sleep" {
				return r.call("Sleep", r.expr(c.Args[0], ctxRead), r.site("sleep", c.Pos()))
			}
		}
	}
	return nil
}

func (r *rw) callExpr(c *ast.CallExpr) ast.Expr {
	if sp := r.special(c); sp != nil {
		return sp
	}
	if tv, ok := r.info.Types[c.Fun]; ok && tv.IsType() {
		// conversion
		r.exprs(c.Args, ctxRead)
		return c
	}
	if id, ok := unparen(c.Fun).(*ast.Ident); ok {
		if b, ok := r.info.Uses[id].(*types.Builtin); ok {
			switch b.Name() {
			case "delete", "clear":
				c.Args[0] = r.expr(c.Args[0], ctxWrite)
				r.exprs(c.Args[1:], ctxRead)
				return c
			case "new", "make":
				r.exprs(c.Args[1:], ctxRead)
				return c
			}
			r.exprs(c.Args, ctxRead)
			return c
		}
	}
	c.Fun = r.expr(c.Fun, ctxRead)
	r.exprs(c.Args, ctxRead)
	return c
}
