module dsim/instrument

go 1.23.0
