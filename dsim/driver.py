#!/usr/bin/env python3
"""Driver of the deterministic-simulation checks (DESIGN.md §3.1, §3.7, §3.9).

  driver.py check <property> <quick|thorough>
  driver.py replay <replay-file>
  driver.py selftest determinism [scenario ...]
  driver.py selftest instrumenter
  driver.py selftest constructs
  driver.py selftest corpus

Exit codes: 0 property held on everything explored; 1 violation (VIOLATION line
printed); 2 build / watchdog / harness trouble (never a verdict).
"""
import json, os, re, shutil, subprocess, sys, tempfile, time, struct, hashlib

HERE = os.path.dirname(os.path.abspath(__file__))
VERIF = os.path.dirname(HERE)
REPO = os.environ.get("DSIM_REPO", "/repo")
NPROC = int(os.environ.get("DSIM_WORKERS", str(os.cpu_count() or 4)))
# When trying seeded changes (dsim/try_mutant.sh) evidence and replay files must not
# overwrite those of the unchanged tree.
if os.environ.get("DSIM_KEEP_EVIDENCE"):
    OUT_BASE = os.path.join(os.environ.get("TMPDIR", "/tmp"), "dsim-mutant-out")
else:
    OUT_BASE = VERIF

ENV = dict(os.environ, GOFLAGS="-mod=mod", GOPROXY="off", GOSUMDB="off", GOTOOLCHAIN="local")

# property -> list of (scenario, quick runs, thorough runs)
PLAN = {
    "C10": [("c10-v4", 8000, 400000), ("c10-v6", 8000, 400000)],
    "C11": [("c11-v4", 4500, 250000), ("c11-v6", 4500, 250000)],
    "C12": [("c12-v4", 8000, 150000), ("c12-v6", 8000, 150000)],
    "C13": [("c13-v4", 12000, 300000), ("c13-v6", 12000, 300000)],
    "C14": [("c14-v4", 8000, 200000), ("c14-v6", 8000, 200000)],
    "C18": [("c18", 24000, 1000000)],
    "C08": [("c08", 8000, 300000)],
}

REAL_STUB = {
    "real": ["nclient4 / nclient6 / server4 / server6 as found in /repo's working tree (instrumented copy)",
             "all dhcpv4 / dhcpv6 / rfc1035label codecs and builders they call",
             "Go channels, select, WaitGroup, atomics, context, time (testing/synctest fake clock)"],
    "stub": ["net.PacketConn (simnet.Conn)", "peer servers' decision logic / scripted peers", "matchers, handlers, loggers",
             "sync.Mutex contention (modelled by the scheduler, then really locked uncontended)", "goroutine scheduling (seeded cooperative scheduler)"],
}


def log(*a):
    print(*a, file=sys.stderr, flush=True)


def die2(msg):
    log("dsim: " + msg)
    sys.exit(2)


def scratch_dir():
    base = os.environ.get("TMPDIR", "/tmp")
    if not os.path.isdir(base):
        base = "/tmp"
    return tempfile.mkdtemp(prefix="dsim-", dir=base)


def build(scr, src=None):
    t0 = time.time()
    r = subprocess.run([os.path.join(HERE, "build.sh"), scr, src or REPO], env=ENV, stdout=subprocess.PIPE, stderr=subprocess.STDOUT, text=True)
    if r.returncode != 0:
        log(r.stdout)
        die2("build failed (exit %d): not a verdict" % r.returncode)
    return time.time() - t0


def run_workers(scr, scenario, tier, seed, total_runs, deadline_s, mode="search", extra_env=None):
    """Run total_runs runs of scenario across NPROC single-threaded worker processes."""
    per = (total_runs + NPROC - 1) // NPROC
    procs = []
    for w in range(NPROC):
        lo, hi = w * per, min(total_runs, (w + 1) * per)
        if lo >= hi:
            break
        out = os.path.join(scr, "out-%s-%d.json" % (scenario, w))
        env = dict(ENV, DSIM_MODE=mode, DSIM_SCENARIO=scenario, DSIM_TIER=tier, DSIM_SEED=str(seed),
                   DSIM_FROM=str(lo), DSIM_TO=str(hi), DSIM_OUT=out, GOMAXPROCS="1",
                   DSIM_DEADLINE=str(int(deadline_s)))
        if extra_env:
            env.update(extra_env)
        lf = open(out + ".log", "w")
        # ulimit -v guards the machine: the sandbox has no memory limit of its own
        cmd = "ulimit -v 8000000; exec %s -test.run '^TestSim$' -test.timeout 0" % os.path.join(scr, "sim.test")
        p = subprocess.Popen(["bash", "-c", cmd], env=env, stdout=lf, stderr=subprocess.STDOUT, cwd=scr)
        procs.append((p, out, lf))
    results = []
    hard = time.time() + deadline_s + 600
    for p, out, lf in procs:
        try:
            p.wait(timeout=max(1, hard - time.time()))
        except subprocess.TimeoutExpired:
            for q, _, _ in procs:
                q.kill()
            die2("watchdog: worker for %s did not finish: not a verdict" % scenario)
        lf.close()
        if p.returncode != 0 or not os.path.exists(out):
            log(open(out + ".log").read()[-4000:])
            die2("worker for %s exited with %s: not a verdict" % (scenario, p.returncode))
        results.append((json.load(open(out)), out))
    return results


def load_known():
    p = os.path.join(VERIF, "known_findings.json")
    if not os.path.exists(p):
        return {"findings": [], "fixed": []}
    return json.load(open(p))


def known_match(known, prop, rule, msg):
    for f in known.get("findings", []):
        if f.get("property") != prop:
            continue
        if f.get("rule") and f["rule"] != rule:
            continue
        if f.get("match") and not re.search(f["match"], msg):
            continue
        return f
    return None


def replay_once(scr, replay_path):
    out = os.path.join(scr, "replay-out.json")
    env = dict(ENV, DSIM_MODE="replay", DSIM_REPLAY=replay_path, DSIM_OUT=out, GOMAXPROCS="1")
    r = subprocess.run([os.path.join(scr, "sim.test"), "-test.run", "^TestSim$", "-test.timeout", "0"], env=env, cwd=scr,
                       stdout=subprocess.PIPE, stderr=subprocess.STDOUT, text=True, timeout=600)
    if r.returncode != 0 or not os.path.exists(out):
        log(r.stdout[-3000:])
        return None
    return json.load(open(out))


def merge_counts(dst, src):
    for k, v in src.items():
        dst[k] = dst.get(k, 0) + v


def check(prop, tier):
    if prop not in PLAN:
        die2("no check for property %s" % prop)
    seed = int(os.environ.get("VERIF_SEED", "1") or "1")
    tier = os.environ.get("VERIF_TIER", tier) or tier
    t0 = time.time()
    scr = scratch_dir()
    try:
        return _check(prop, tier, seed, scr, t0)
    finally:
        shutil.rmtree(scr, ignore_errors=True)


def _check(prop, tier, seed, scr, t0):
    build_s = build(scr)
    instr = json.load(open(os.path.join(scr, "instrument.json")))
    known = load_known()
    scale = float(os.environ.get("DSIM_SCALE", "1"))
    agg = {"runs": 0, "steps": 0, "events": 0, "virtual_ns": 0, "tasks": 0, "conc": 0, "hb": 0, "adopted": 0,
           "faults": {}, "probes": {}, "site_hits": {}, "case_hits": {}, "inconclusive": [], "samples": [], "timed_out": False}
    il_all, hist_all, il_nontrivial = set(), set(), set()
    failures = []
    per_scenario = {}
    for scenario, nq, nt in PLAN[prop]:
        n = int((nq if tier == "quick" else nt) * scale)
        budget = 240 if tier == "quick" else 3 * 3600
        res = run_workers(scr, scenario, tier, seed, n, budget)
        sruns = 0
        for r, out in res:
            sruns += r["runs"]
            agg["runs"] += r["runs"]; agg["steps"] += r["steps"]; agg["events"] += r["events"]
            agg["virtual_ns"] += r["virtual_ns"]; agg["tasks"] += r["tasks"]; agg["conc"] += r["concurrent_sut_steps"]
            agg["hb"] += r["hb_checked"]; agg["adopted"] += r["adopted"]
            agg["timed_out"] = agg["timed_out"] or r.get("timed_out", False)
            merge_counts(agg["faults"], r["faults"] or {})
            merge_counts(agg["probes"], r["probes"] or {})
            merge_counts(agg["site_hits"], r["site_hits"] or {})
            merge_counts(agg["case_hits"], r["case_hits"] or {})
            agg["inconclusive"] += r.get("inconclusive") or []
            if len(agg["samples"]) < 3 and r.get("samples"):
                agg["samples"].append(dict(r["samples"][0], scenario=scenario))
            for f in r.get("failures") or []:
                f["scenario"] = scenario
                failures.append(f)
            hp = out + ".hashes"
            if os.path.exists(hp):
                b = open(hp, "rb").read()
                for i in range(0, len(b) - 16, 17):
                    il, hh, nt_ = struct.unpack_from("<QQB", b, i)
                    key = (scenario, il)
                    il_all.add(key); hist_all.add((scenario, hh))
                    if nt_:
                        il_nontrivial.add(key)
        per_scenario[scenario] = sruns
    # ---- verdicts
    os.makedirs(os.path.join(OUT_BASE, "replays"), exist_ok=True)
    violations, known_hits, trouble = [], {}, []
    seen_rule = {}
    for f in failures:
        if f["rule"] == "harness":
            # the harness itself reports trouble (setup failed, corpus item not accepted): never a verdict
            trouble.append("harness trouble in %s run %d: %s" % (f["scenario"], f["run"], f["msg"][:300]))
            continue
        kf = known_match(known, prop, f["rule"], f["msg"])
        if kf is not None:
            known_hits.setdefault(kf.get("id", f["rule"]), (kf, f))
            continue
        key = (f["scenario"], f["rule"])
        if key in seen_rule:
            seen_rule[key]["count"] += 1
            continue
        name = "%s-%d-%d-%s-%s.json" % (prop, seed, f["run"], f["scenario"], re.sub(r"[^A-Za-z0-9]+", "_", f["rule"]))
        path = os.path.join(OUT_BASE, "replays", name)
        rf = {"property": prop, "scenario": f["scenario"], "tier": tier, "rule": f["rule"], "msg": f["msg"], "seed": seed,
              "run": f["run"], "run_seed": f["run_seed"], "tape": f["tape"], "orig_tape_len": f["orig_tape_len"],
              "minimise_runs": f["minimise_runs"], "digest": f["digest"], "all_violations": f["all"], "trace": f["trace"],
              "replay_cmd": "./run.sh replay " + os.path.relpath(path, VERIF)}
        json.dump(rf, open(path, "w"), indent=1)
        rr = replay_once(scr, path)
        if rr is not None and rr.get("reproduced") and not rr.get("same_digest"):
            # The violation shows again in a fresh process but the history differs in detail from
            # the one recorded during the search. That happens when the tree under test keeps
            # state in package-level variables across the runs of one worker process (a change may
            # introduce exactly that: a shared "zero" slice, a cache, a pool): run k of the search
            # saw what runs < k left behind, the fresh process does not. What must hold is that
            # the *replay file* reproduces exactly: it is re-recorded from the fresh process and
            # replayed once more; only if the two fresh replays agree is it a verdict.
            rf["digest"] = rr["digest"]
            rf["trace"] = rr.get("trace") or rf["trace"]
            rf["note"] = "history re-recorded from a fresh process: the tree under test carries state across runs of one process"
            json.dump(rf, open(path, "w"), indent=1)
            rr = replay_once(scr, path)
        if rr is None or not rr.get("reproduced") or not rr.get("same_digest"):
            trouble.append("replay of %s did not reproduce identically (%s)" % (name, "no result" if rr is None else "reproduced=%s same_digest=%s" % (rr.get("reproduced"), rr.get("same_digest"))))
            continue
        ent = {"path": path, "rule": f["rule"], "msg": f["msg"], "scenario": f["scenario"], "count": 1}
        seen_rule[key] = ent
        violations.append(ent)
    wall = time.time() - t0
    # ---- evidence
    sites = {str(s["id"]): s for s in instr.get("sites", [])}
    # scheduling points (unlock is not one) in the files the property is anchored in
    sync_kinds = {"lock", "select", "recv", "send", "close", "go", "wg", "atomic", "once", "cond", "sleep", "range-chan"}
    scope = {"C10": ["nclient4/client.go", "nclient6/client.go"], "C11": ["nclient4/client.go", "nclient6/client.go"],
             "C12": ["nclient4/client.go", "nclient6/client.go"], "C13": ["nclient4/", "nclient6/", "server4/", "server6/"],
             "C14": ["server4/", "server6/"], "C18": ["nclient4/conn_unix.go", "nclient4/ipv4.go"], "C08": []}[prop]
    unreached, blocked = [], {}
    for sid, s in sites.items():
        if s["kind"] in sync_kinds and any(x in s["pos"] for x in scope) and agg["site_hits"].get(sid, 0) + agg["site_hits"].get(str(-int(sid) - 1), 0) == 0:
            unreached.append("%s@%s" % (s["kind"], s["pos"]))
        woke = agg["site_hits"].get(str(-int(sid) - 1), 0)
        if woke and s["kind"] in sync_kinds:
            blocked["%s@%s" % (s["kind"], s["pos"])] = woke
    ev = {
        "property_id": prop, "tier": tier, "seed": seed, "level": "exploration",
        "coverage": {
            "evaluations": agg["runs"],
            "distinct_nontrivial": len(il_nontrivial),
            "rule": "one evaluation = one simulated run (one choice tape from splitmix(VERIF_SEED, scenario, run index)); distinct = distinct hash of the run's full sequence of (task, site) scheduling decisions; non-trivial = additionally >=2 tasks were inside SUT code at some scheduler step or >=1 injected fault fired",
            "samples": agg["samples"],
            "distinct_interleavings": len(il_all),
            "distinct_histories": len(hist_all),
            "runs_per_scenario": per_scenario,
            "scheduler_steps": agg["steps"],
            "history_events": agg["events"],
            "simulated_time_s": agg["virtual_ns"] / 1e9,
            "runs_per_hour": int(agg["runs"] / max(wall, 1e-9) * 3600),
            "tasks_created": agg["tasks"],
            "steps_with_2plus_tasks_in_sut": agg["conc"],
            "hb_accesses_checked": agg["hb"],
            "faults_fired": dict(sorted(agg["faults"].items())),
            "reach_probes": dict(sorted(agg["probes"].items())),
            "select_cases_fired": {("%s case %s" % (sites.get(k.split("/")[0], {}).get("pos", k.split("/")[0]), k.split("/")[1])): v for k, v in sorted(agg["case_hits"].items())},
            "unreached_sync_sites": sorted(unreached),
            "really_blocked_then_woken_at": dict(sorted(blocked.items())),
            "instrumented_sites": instr.get("counts", {}),
            "instrumenter_warnings": instr.get("warnings") or [],
            "inconclusive_runs": agg["inconclusive"][:20],
            "uncontrolled_goroutines_adopted": agg["adopted"],
            "real_vs_stub": REAL_STUB,
            "build_s": round(build_s, 1),
            "known_findings_hit": sorted(known_hits.keys()),
            "harness_trouble": trouble,
        },
        "assumptions": [
            "sampling, not enumeration: a clean batch is evidence, not proof",
            "zero-time computation: virtual time advances only when no task is runnable (stalled-task fault excepted, and kept away from timing rules)",
            "testing/synctest of go1.26.8 is trusted for the fake clock and quiescence detection; the SUT is compiled by go1.26.8, not the repo's pinned toolchain",
            "the instrumenter's rewrites preserve behaviour (validated by running the packages' own tests on the instrumented copy: ./run.sh selftest instrumenter)",
        ],
        "wall_s": round(wall, 2),
        "violations": len(violations),
    }
    if prop == "C08":
        # corpus coverage against the option types the library's parser knows (DESIGN.md §4.1)
        try:
            src = open(os.path.join(scr, "src", "dhcpv6", "options.go")).read()
            known = sorted(set(re.findall(r"opt = &(\w+)\{", src)))
            seen = set(k[len("type *dhcpv6."):] for k in agg["probes"] if k.startswith("type *dhcpv6."))
            ev["coverage"]["dhcpv6_option_types_in_parser"] = known
            ev["coverage"]["dhcpv6_option_types_not_in_corpus"] = [k for k in known if k not in seen]
        except Exception as e:  # never a verdict
            ev["coverage"]["dhcpv6_option_types_not_in_corpus"] = ["(could not be computed: %s)" % e]
    os.makedirs(os.path.join(OUT_BASE, "evidence"), exist_ok=True)
    json.dump(ev, open(os.path.join(OUT_BASE, "evidence", prop + ".json"), "w"), indent=1)
    # ---- report
    print("dsim %s %s seed=%d: %d runs, %d steps, %.0f s simulated, %d distinct interleavings (%d non-trivial), %.1f s wall"
          % (prop, tier, seed, agg["runs"], agg["steps"], agg["virtual_ns"] / 1e9, len(il_all), len(il_nontrivial), wall))
    for kid, (kf, f) in sorted(known_hits.items()):
        print("KNOWN-FINDING: property=%s %s" % (prop, kf.get("what", f["msg"])))
    for v in violations:
        print("  rule %s (%s): %s" % (v["rule"], v["scenario"], v["msg"]))
        print("VIOLATION property=%s replay=%s" % (prop, v["path"]))
    if agg["inconclusive"]:
        log("dsim: %d inconclusive run(s), e.g. %s" % (len(agg["inconclusive"]), agg["inconclusive"][0]))
    if violations:
        return 1
    if trouble:
        for t in trouble:
            log("dsim: " + t)
        return 2
    if agg["runs"] == 0 or agg["inconclusive"]:
        die2("%d run(s) could not be judged (budget exhausted / lost control): not a verdict" % len(agg["inconclusive"]))
    return 0


def replay(path):
    rf = json.load(open(path))
    scr = scratch_dir()
    try:
        build(scr)
        rr = replay_once(scr, os.path.abspath(path))
        if rr is None:
            die2("replay run failed")
        for line in rr.get("trace") or []:
            print(line)
        for v in rr.get("violations") or []:
            print("  rule %s: %s" % (v["rule"], v["msg"]))
        if rr.get("reproduced"):
            print("VIOLATION property=%s replay=%s" % (rf["property"], os.path.abspath(path)))
            print("reproduced rule %s; event-log digest %s (%s)" % (rf["rule"], rr["digest"], "identical" if rr["same_digest"] else "DIFFERS from recorded " + rf["digest"]))
            return 1
        print("not reproduced on the current tree (rule %s)" % rf["rule"])
        return 0
    finally:
        shutil.rmtree(scr, ignore_errors=True)


def selftest_determinism(scenarios):
    """>=64 runs of every scenario in >=30 processes at GOMAXPROCS 1/4/16; digests must agree (DESIGN.md §3.8)."""
    scr = scratch_dir()
    try:
        build(scr)
        if not scenarios:
            scenarios = [s for v in PLAN.values() for s, _, _ in v]
        bad = 0
        for sc in scenarios:
            ref = None
            n = 0
            procs = []
            for rep in range(10):
                for gmp in ("1", "4", "16"):
                    out = os.path.join(scr, "dig-%s-%d-%s.json" % (sc, rep, gmp))
                    env = dict(ENV, DSIM_MODE="digest", DSIM_SCENARIO=sc, DSIM_SEED=os.environ.get("VERIF_SEED", "1"), DSIM_FROM="0", DSIM_TO="64", DSIM_OUT=out, GOMAXPROCS=gmp)
                    procs.append((subprocess.Popen([os.path.join(scr, "sim.test"), "-test.run", "^TestSim$", "-test.timeout", "0"], env=env, cwd=scr, stdout=subprocess.DEVNULL, stderr=subprocess.DEVNULL), out, gmp))
                for p, out, gmp in procs[-3:]:
                    pass
            for p, out, gmp in procs:
                p.wait()
                if p.returncode != 0 or not os.path.exists(out):
                    print("determinism %s: worker failed (GOMAXPROCS=%s)" % (sc, gmp)); bad += 1; continue
                d = json.load(open(out))["digests"]
                n += 1
                if ref is None:
                    ref = d
                elif d != ref:
                    diff = [k for k in ref if ref[k] != d.get(k)]
                    print("determinism %s: GOMAXPROCS=%s differs on runs %s" % (sc, gmp, diff[:10])); bad += 1
            print("determinism %s: %d processes x 64 runs %s" % (sc, n, "identical" if bad == 0 else "MISMATCH"))
        return 0 if bad == 0 else 2
    finally:
        shutil.rmtree(scr, ignore_errors=True)


def selftest_instrumenter():
    """The target packages' own unit tests must pass on the instrumented copy with the scheduler inactive."""
    scr = scratch_dir()
    try:
        build(scr)
        r = subprocess.run(["go1.26.8", "test", "-vet=off", "-count=1", "./dhcpv4/nclient4", "./dhcpv6/nclient6", "./dhcpv4/server4", "./dhcpv6/server6",
                            "./dhcpv4", "./dhcpv6", "./rfc1035label", "./iana"],
                           env=ENV, cwd=os.path.join(scr, "src"), stdout=subprocess.PIPE, stderr=subprocess.STDOUT, text=True)
        print(r.stdout)
        return 0 if r.returncode == 0 else 2
    finally:
        shutil.rmtree(scr, ignore_errors=True)


def selftest_corpus():
    """Every hand-encoded corpus variant of the C08 scenario must be accepted by the library's decoders."""
    scr = scratch_dir()
    try:
        build(scr)
        out = os.path.join(scr, "corpus.json")
        env = dict(ENV, DSIM_MODE="corpus-check", DSIM_OUT=out, GOMAXPROCS="1")
        r = subprocess.run([os.path.join(scr, "sim.test"), "-test.run", "^TestSim$"], env=env, cwd=scr, stdout=subprocess.PIPE, stderr=subprocess.STDOUT, text=True)
        if r.returncode != 0 or not os.path.exists(out):
            print(r.stdout[-3000:]); return 2
        bad = json.load(open(out))["failures"] or []
        for b in bad:
            print("corpus: " + b)
        print("corpus: %s" % ("ok" if not bad else "FAILED"))
        return 0 if not bad else 2
    finally:
        shutil.rmtree(scr, ignore_errors=True)


def selftest_constructs():
    """Differential self-test of instrumenter + runtime on dsim/constructs (every rewritten construct)."""
    scr = scratch_dir()
    try:
        build(scr)
        out = os.path.join(scr, "plain.json")
        env = dict(ENV, DSIM_MODE="plain-constructs", DSIM_OUT=out, GOMAXPROCS="4")
        r = subprocess.run([os.path.join(scr, "sim.test"), "-test.run", "^TestSim$", "-test.timeout", "120s"], env=env, cwd=scr, stdout=subprocess.PIPE, stderr=subprocess.STDOUT, text=True)
        if r.returncode != 0 or not os.path.exists(out):
            print(r.stdout[-3000:]); return 2
        bad = json.load(open(out))["failures"] or []
        for b in bad:
            print("constructs (plain): " + b)
        n = int(os.environ.get("DSIM_CONSTRUCT_RUNS", "20000"))
        res = run_workers(scr, "selftest-constructs", "quick", int(os.environ.get("VERIF_SEED", "1") or "1"), n, 600)
        runs = sum(r["runs"] for r, _ in res)
        fails = [f for r, _ in res for f in (r.get("failures") or [])]
        inconcl = [x for r, _ in res for x in (r.get("inconclusive") or [])]
        probes = {}
        for r, _ in res:
            merge_counts(probes, r.get("probes") or {})
        for f in fails[:10]:
            print("constructs: rule %s: %s" % (f["rule"], f["msg"][:300]))
        for x in inconcl[:5]:
            print("constructs: inconclusive: " + x)
        print("constructs: %d runs under the scheduler, cases %s" % (runs, {k[5:]: v for k, v in sorted(probes.items()) if k.startswith("case-")}))
        print("constructs: %s" % ("ok" if not bad and not fails and not inconcl else "FAILED"))
        return 0 if not bad and not fails and not inconcl else 2
    finally:
        shutil.rmtree(scr, ignore_errors=True)


def main():
    a = sys.argv[1:]
    if len(a) >= 3 and a[0] == "check":
        sys.exit(check(a[1], a[2]))
    if len(a) == 2 and a[0] == "replay":
        sys.exit(replay(a[1]))
    if len(a) >= 2 and a[0] == "selftest" and a[1] == "determinism":
        sys.exit(selftest_determinism(a[2:]))
    if len(a) == 2 and a[0] == "selftest" and a[1] == "instrumenter":
        sys.exit(selftest_instrumenter())
    if len(a) == 2 and a[0] == "selftest" and a[1] == "corpus":
        sys.exit(selftest_corpus())
    if len(a) == 2 and a[0] == "selftest" and a[1] == "constructs":
        sys.exit(selftest_constructs())
    print(__doc__)
    sys.exit(2)


if __name__ == "__main__":
    try:
        main()
    except SystemExit:
        raise
    except BaseException as e:  # any trouble of the driver itself is exit 2, never a verdict
        import traceback
        traceback.print_exc()
        log("dsim: driver trouble (%s): not a verdict" % e)
        sys.exit(2)
