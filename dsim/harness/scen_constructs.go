//go:build go1.25

package zzsimharness

import (
	"fmt"

	"github.com/insomniacslk/dhcp/zzconstructs"
	simrt "github.com/insomniacslk/dhcp/zzsimrt"
)

// Scenario "selftest-constructs": differential self-test of the instrumenter and
// the scheduler runtime (see dsim/constructs/constructs.go). Not tied to a property.
func init() {
	register(&Scenario{Name: "selftest-constructs", Property: "selftest", Run: func(s *simrt.Sim, tier string) func(simrt.RunResult) []simrt.Violation {
		t := s.Tape()
		s.EnableHB()
		s.Probe("policy-" + pickPolicy(s))
		c := zzconstructs.Cases[t.Choose(len(zzconstructs.Cases))]
		s.AllowStall = t.Coin(1, 4)
		if s.AllowStall {
			s.StallPermille = 20
		}
		got := "<did not finish>"
		s.GoTask("case:"+c.Name, func() {
			s.EnterSUT()
			got = c.Run()
			s.LeaveSUT()
			s.Ev("result", -1, 0, c.Name+" = "+got, nil)
		})
		return func(res simrt.RunResult) []simrt.Violation {
			s.Probe("case-" + c.Name)
			if got != c.Want {
				return []simrt.Violation{{Rule: "constructs-result", Msg: fmt.Sprintf("%s returned %q under the scheduler, want %q", c.Name, got, c.Want)}}
			}
			return nil
		}
	}})
}

// plainConstructs runs every case without a simulation (the runtime must fall through).
func plainConstructs() []string {
	var bad []string
	for _, c := range zzconstructs.Cases {
		if got := c.Run(); got != c.Want {
			bad = append(bad, fmt.Sprintf("%s returned %q without the scheduler, want %q", c.Name, got, c.Want))
		}
	}
	return bad
}
