//go:build go1.25

package zzsimharness

import (
	"encoding/binary"
	"encoding/json"
	"fmt"
	"os"
	"sort"
	"strconv"
	"strings"
	"testing"
	"time"

	simrt "github.com/insomniacslk/dhcp/zzsimrt"
)

// Worker protocol (driven by /verif/dsim/driver.py through environment variables):
//
//	DSIM_MODE      search | replay | digest
//	DSIM_SCENARIO  scenario name
//	DSIM_TIER      quick | thorough
//	DSIM_SEED      base seed (VERIF_SEED)
//	DSIM_FROM/TO   run index range [from, to)
//	DSIM_OUT       result file (JSON); DSIM_OUT.hashes gets 17 bytes per run
//	DSIM_REPLAY    replay file (replay mode)
//	DSIM_MAXFAIL   stop after this many violating runs (default 3)
//	DSIM_DEADLINE  wall-clock budget in seconds (0: none)

type failure struct {
	Run     int               `json:"run"`
	RunSeed uint64            `json:"run_seed"`
	Rule    string            `json:"rule"`
	Msg     string            `json:"msg"`
	All     []simrt.Violation `json:"all"`
	Tape    []uint32          `json:"tape"`
	OrigLen int               `json:"orig_tape_len"`
	MinRuns int               `json:"minimise_runs"`
	Digest  string            `json:"digest"`
	Trace   []string          `json:"trace"`
	Steps   int               `json:"steps"`
}

type workerResult struct {
	Scenario     string `json:"scenario"`
	Property     string `json:"property"`
	Tier         string `json:"tier"`
	Seed         uint64 `json:"seed"`
	From, To     int
	Runs         int               `json:"runs"`
	Steps        int64             `json:"steps"`
	Events       int64             `json:"events"`
	VirtualNs    int64             `json:"virtual_ns"`
	WallS        float64           `json:"wall_s"`
	Tasks        int64             `json:"tasks"`
	ConcSteps    int64             `json:"concurrent_sut_steps"`
	HBChecked    int64             `json:"hb_checked"`
	MaxReady     int               `json:"max_ready"`
	Adopted      int               `json:"adopted"`
	Faults       map[string]int    `json:"faults"`
	Probes       map[string]int    `json:"probes"`
	SiteHits     map[string]int    `json:"site_hits"`
	CaseHits     map[string]int    `json:"case_hits"`
	Failures     []failure         `json:"failures"`
	Inconclusive []string          `json:"inconclusive"`
	Samples      []json.RawMessage `json:"samples"`
	Digests      map[string]string `json:"digests,omitempty"`
	TimedOut     bool              `json:"timed_out"`
}

func envInt(name string, def int) int {
	if v := os.Getenv(name); v != "" {
		n, err := strconv.Atoi(v)
		if err == nil {
			return n
		}
	}
	return def
}

func envU64(name string, def uint64) uint64 {
	if v := os.Getenv(name); v != "" {
		n, err := strconv.ParseUint(v, 10, 64)
		if err == nil {
			return n
		}
		if i, err := strconv.ParseInt(v, 10, 64); err == nil {
			return uint64(i)
		}
	}
	return def
}

func scenarioStream(name string) uint64 {
	h := uint64(1469598103934665603)
	for i := 0; i < len(name); i++ {
		h = (h ^ uint64(name[i])) * 1099511628211
	}
	return h
}

func searchTape(sc *Scenario, base uint64, run int) (*simrt.Tape, uint64) {
	seed := simrt.SplitMix(base, scenarioStream(sc.Name), uint64(run))
	t := simrt.NewSearchTape(seed)
	if sc.Grid > 0 {
		t.Force([]uint32{uint32(run % sc.Grid)})
	}
	return t, seed
}

func hasRule(vs []simrt.Violation, rule string) bool {
	for _, v := range vs {
		if v.Rule == rule {
			return true
		}
	}
	return false
}

// minimise shrinks a failing tape while the same rule still fails (DESIGN.md §3.7).
func minimise(t *testing.T, sc *Scenario, tier string, tape []uint32, rule string, budget int, deadline time.Time) ([]uint32, int) {
	runs := 0
	fails := func(cand []uint32) bool {
		if runs >= budget || time.Now().After(deadline) {
			return false
		}
		runs++
		o := runOne(t, sc, simrt.NewReplayTape(cand), tier, false)
		return o.Inconclusive == "" && hasRule(o.Violations, rule)
	}
	cur := append([]uint32(nil), tape...)
	trim := func() {
		for len(cur) > 0 && cur[len(cur)-1] == 0 {
			cur = cur[:len(cur)-1]
		}
	}
	trim()
	// 1. truncate the suffix (binary search on the prefix length)
	lo, hi := 0, len(cur)
	for lo < hi {
		mid := (lo + hi) / 2
		if fails(cur[:mid]) {
			hi = mid
		} else {
			lo = mid + 1
		}
	}
	if hi < len(cur) && fails(cur[:hi]) {
		cur = cur[:hi]
	}
	trim()
	// 2. zero blocks, then delete blocks (ddmin style), halving the block size
	for pass := 0; pass < 2; pass++ {
		for size := len(cur) / 2; size >= 1; size /= 2 {
			for i := 0; i+size <= len(cur); {
				cand := append([]uint32(nil), cur...)
				changed := false
				if pass == 0 {
					for j := i; j < i+size; j++ {
						if cand[j] != 0 {
							cand[j] = 0
							changed = true
						}
					}
				} else {
					cand = append(cand[:i], cand[i+size:]...)
					changed = true
				}
				if changed && fails(cand) {
					cur = cand
					if pass == 1 {
						continue
					}
				}
				i += size
			}
			if runs >= budget {
				break
			}
		}
		trim()
	}
	// 3. lower single entries
	for i := 0; i < len(cur) && runs < budget; i++ {
		for cur[i] > 0 {
			cand := append([]uint32(nil), cur...)
			if cand[i] > 1 {
				cand[i] = cand[i] / 2
			} else {
				cand[i] = 0
			}
			if fails(cand) {
				cur = cand
			} else {
				break
			}
		}
	}
	trim()
	return cur, runs
}

func sampleOf(run int, seed uint64, o Outcome, trace []string) json.RawMessage {
	if len(trace) > 60 {
		trace = append(append([]string(nil), trace[:40]...), fmt.Sprintf("... (%d events omitted) ...", len(trace)-50))
	}
	b, _ := json.Marshal(map[string]interface{}{
		"run": run, "run_seed": seed, "steps": o.Steps, "tasks": o.Tasks, "events": o.Events,
		"virtual": o.Virtual.String(), "tape_len": len(o.Tape), "faults": o.Faults, "history": trace,
	})
	return b
}

func TestSim(t *testing.T) {
	mode := os.Getenv("DSIM_MODE")
	if mode == "" {
		t.Skip("DSIM_MODE not set: this binary is driven by /verif/dsim/driver.py")
	}
	scName := os.Getenv("DSIM_SCENARIO")
	sc := scenarios[scName]
	if sc == nil && mode != "replay" && mode != "plain-constructs" && mode != "corpus-check" {
		names := []string{}
		for n := range scenarios {
			names = append(names, n)
		}
		sort.Strings(names)
		t.Fatalf("unknown scenario %q (have: %s)", scName, strings.Join(names, " "))
	}
	tier := os.Getenv("DSIM_TIER")
	if tier == "" {
		tier = "quick"
	}
	out := os.Getenv("DSIM_OUT")
	switch mode {
	case "search":
		res := search(t, sc, tier)
		writeJSON(t, out, res)
	case "digest":
		res := digestRuns(t, sc, tier)
		writeJSON(t, out, res)
	case "replay":
		replay(t, out)
	case "corpus-check":
		writeJSON(t, out, map[string]interface{}{"failures": corpusCheck()})
	case "plain-constructs":
		writeJSON(t, out, map[string]interface{}{"failures": plainConstructs()})
	default:
		t.Fatalf("unknown DSIM_MODE %q", mode)
	}
}

func writeJSON(t *testing.T, path string, v interface{}) {
	b, err := json.Marshal(v)
	if err != nil {
		t.Fatal(err)
	}
	if path == "" {
		os.Stdout.Write(append(b, '\n'))
		return
	}
	if err := os.WriteFile(path, b, 0o644); err != nil {
		t.Fatal(err)
	}
}

func search(t *testing.T, sc *Scenario, tier string) *workerResult {
	base := envU64("DSIM_SEED", 1)
	from, to := envInt("DSIM_FROM", 0), envInt("DSIM_TO", 100)
	maxFail := envInt("DSIM_MAXFAIL", 3)
	start := time.Now()
	var deadline time.Time
	if d := envInt("DSIM_DEADLINE", 0); d > 0 {
		deadline = start.Add(time.Duration(d) * time.Second)
	}
	res := &workerResult{Scenario: sc.Name, Property: sc.Property, Tier: tier, Seed: base, From: from, To: to,
		Faults: map[string]int{}, Probes: map[string]int{}, SiteHits: map[string]int{}, CaseHits: map[string]int{}}
	var hashes []byte
	failedRules := map[string]int{}
	for run := from; run < to; run++ {
		if !deadline.IsZero() && time.Now().After(deadline) {
			res.TimedOut = true
			res.To = run
			break
		}
		tape, seed := searchTape(sc, base, run)
		wantTrace := len(res.Samples) < 2
		o := runOne(t, sc, tape, tier, wantTrace)
		res.Runs++
		res.Steps += int64(o.Steps)
		res.Events += int64(o.Events)
		res.VirtualNs += int64(o.Virtual)
		res.Tasks += int64(o.Tasks)
		res.ConcSteps += int64(o.ConcurrentSUT)
		res.HBChecked += int64(o.HBChecked)
		res.Adopted += o.Adopted
		if o.MaxReady > res.MaxReady {
			res.MaxReady = o.MaxReady
		}
		for k, v := range o.Faults {
			res.Faults[k] += v
		}
		for k, v := range o.Probes {
			res.Probes[k] += v
		}
		for k, v := range o.SiteHits {
			res.SiteHits[strconv.Itoa(k)] += v
		}
		for k, v := range o.CaseHits {
			res.CaseHits[fmt.Sprintf("%d/%d", k[0], k[1])] += v
		}
		var rec [17]byte
		binary.LittleEndian.PutUint64(rec[0:], o.ILHash)
		hh, _ := strconv.ParseUint(o.HistHash, 16, 64)
		binary.LittleEndian.PutUint64(rec[8:], hh)
		if o.Nontrivial {
			rec[16] = 1
		}
		hashes = append(hashes, rec[:]...)
		if wantTrace && o.Inconclusive == "" {
			res.Samples = append(res.Samples, sampleOf(run, seed, o, o.Trace))
		}
		if o.Inconclusive != "" {
			if len(res.Inconclusive) < 20 {
				res.Inconclusive = append(res.Inconclusive, fmt.Sprintf("run %d: %s", run, o.Inconclusive))
			}
			continue
		}
		if len(o.Violations) == 0 {
			continue
		}
		// one failure record per distinct rule of this run, minimised
		for _, v := range o.Violations {
			if failedRules[v.Rule] >= maxFail {
				continue
			}
			failedRules[v.Rule]++
			minDeadline := time.Now().Add(120 * time.Second)
			mt, mruns := minimise(t, sc, tier, o.Tape, v.Rule, 2000, minDeadline)
			mo := runOne(t, sc, simrt.NewReplayTape(mt), tier, true)
			f := failure{Run: run, RunSeed: seed, Rule: v.Rule, Msg: v.Msg, All: o.Violations, Tape: mt, OrigLen: len(o.Tape), MinRuns: mruns}
			if hasRule(mo.Violations, v.Rule) {
				for _, mv := range mo.Violations {
					if mv.Rule == v.Rule {
						f.Msg = mv.Msg
						break
					}
				}
				f.All = mo.Violations
				f.Digest = mo.Digest
				f.Trace = mo.Trace
				f.Steps = mo.Steps
			} else {
				// minimisation result does not reproduce (should not happen): keep the original tape
				oo := runOne(t, sc, simrt.NewReplayTape(o.Tape), tier, true)
				f.Tape = o.Tape
				f.Digest = oo.Digest
				f.Trace = oo.Trace
				f.Steps = oo.Steps
			}
			res.Failures = append(res.Failures, f)
		}
	}
	res.WallS = time.Since(start).Seconds()
	if out := os.Getenv("DSIM_OUT"); out != "" {
		os.WriteFile(out+".hashes", hashes, 0o644)
	}
	return res
}

// digestRuns executes runs and reports only their event-log digests (determinism self-test).
func digestRuns(t *testing.T, sc *Scenario, tier string) *workerResult {
	base := envU64("DSIM_SEED", 1)
	from, to := envInt("DSIM_FROM", 0), envInt("DSIM_TO", 64)
	res := &workerResult{Scenario: sc.Name, Tier: tier, Seed: base, From: from, To: to, Digests: map[string]string{}}
	for run := from; run < to; run++ {
		tape, _ := searchTape(sc, base, run)
		o := runOne(t, sc, tape, tier, false)
		d := o.Digest
		if o.Inconclusive != "" {
			d = "inconclusive:" + o.Inconclusive
		}
		rules := []string{}
		for _, v := range o.Violations {
			rules = append(rules, v.Rule)
		}
		res.Digests[strconv.Itoa(run)] = fmt.Sprintf("%s/%d/%x/%s", d, o.Steps, o.ILHash, strings.Join(rules, ","))
		res.Runs++
	}
	return res
}

type replayFile struct {
	Property string   `json:"property"`
	Scenario string   `json:"scenario"`
	Tier     string   `json:"tier"`
	Rule     string   `json:"rule"`
	Msg      string   `json:"msg"`
	Seed     uint64   `json:"seed"`
	Run      int      `json:"run"`
	RunSeed  uint64   `json:"run_seed"`
	Tape     []uint32 `json:"tape"`
	Digest   string   `json:"digest"`
	Trace    []string `json:"trace"`
}

type replayResult struct {
	Reproduced   bool              `json:"reproduced"`
	SameDigest   bool              `json:"same_digest"`
	Digest       string            `json:"digest"`
	Violations   []simrt.Violation `json:"violations"`
	Inconclusive string            `json:"inconclusive"`
	Trace        []string          `json:"trace"`
}

func replay(t *testing.T, out string) {
	b, err := os.ReadFile(os.Getenv("DSIM_REPLAY"))
	if err != nil {
		t.Fatal(err)
	}
	var rf replayFile
	if err := json.Unmarshal(b, &rf); err != nil {
		t.Fatal(err)
	}
	sc := scenarios[rf.Scenario]
	if sc == nil {
		t.Fatalf("unknown scenario %q", rf.Scenario)
	}
	o := runOne(t, sc, simrt.NewReplayTape(rf.Tape), rf.Tier, true)
	rr := replayResult{Digest: o.Digest, Violations: o.Violations, Inconclusive: o.Inconclusive, Trace: o.Trace}
	rr.Reproduced = hasRule(o.Violations, rf.Rule)
	rr.SameDigest = o.Digest == rf.Digest
	writeJSON(t, out, rr)
}
