//go:build go1.25

package zzsimharness

import (
	"bytes"
	"fmt"
	"net"
	"reflect"
	"sort"
	"time"

	"github.com/insomniacslk/dhcp/dhcpv4"
	"github.com/insomniacslk/dhcp/dhcpv4/server4"
	"github.com/insomniacslk/dhcp/dhcpv6"
	"github.com/insomniacslk/dhcp/dhcpv6/server6"
	simrt "github.com/insomniacslk/dhcp/zzsimrt"
)

// Scenario "server" (DESIGN.md §4.6): the real Serve loop of server4 / server6 on a
// simulated PacketConn fed a drawn sequence of datagrams; handlers are harness
// code running on the goroutines the server spawns.

type srvProto interface {
	Name() string
	Start(conn net.PacketConn, handler func(peer net.Addr, m interface{}), logf func(string)) (serve func() error, closeFn func() error, err error)
	Canon(b []byte) ([]byte, bool) // canonical re-encoding of the library decoding of b
	MsgBytes(m interface{}) []byte
	Valid(i int, t *simrt.Tape) []byte
	Mutate(b []byte, t *simrt.Tape) ([]byte, string)
	ExpectPeer(from net.Addr) string
	Sender(t *simrt.Tape) net.Addr
}

type srvLogger4 struct{ logf func(string) }

func (l srvLogger4) PrintMessage(prefix string, m *dhcpv4.DHCPv4) { l.logf("msg " + prefix) }
func (l srvLogger4) Printf(format string, v ...interface{})       { l.logf("printf " + format) }

type srvLogger6 struct{ logf func(string) }

func (l srvLogger6) PrintMessage(prefix string, m *dhcpv6.Message) { l.logf("msg " + prefix) }
func (l srvLogger6) Printf(format string, v ...interface{})        { l.logf("printf " + format) }

// srvLoggerVariant: which logger the server of the current run is built with (drawn per
// run): 0 the harness's, 1 the library's debug logger, 2 its summary logger.
var srvLoggerVariant int

type srv4 struct{}

func (srv4) Name() string { return "v4" }

func (srv4) Start(conn net.PacketConn, handler func(net.Addr, interface{}), logf func(string)) (func() error, func() error, error) {
	h := func(c net.PacketConn, peer net.Addr, m *dhcpv4.DHCPv4) { handler(peer, m) }
	lopt := server4.WithLogger(srvLogger4{logf})
	switch srvLoggerVariant {
	case 1:
		lopt = server4.WithDebugLogger() // the library's own loggers print (read) every message
	case 2:
		lopt = server4.WithSummaryLogger()
	}
	s, err := server4.NewServer("", nil, h, server4.WithConn(conn), lopt)
	if err != nil {
		return nil, nil, err
	}
	return s.Serve, s.Close, nil
}

func (srv4) Canon(b []byte) ([]byte, bool) {
	m, err := dhcpv4.FromBytes(append([]byte(nil), b...))
	if err != nil {
		return nil, false
	}
	return m.ToBytes(), true
}

func (srv4) MsgBytes(m interface{}) []byte {
	p, _ := m.(*dhcpv4.DHCPv4)
	if p == nil {
		return nil
	}
	return p.ToBytes()
}

func (srv4) Valid(i int, t *simrt.Tape) []byte {
	if t.Coin(1, 3) {
		// the option-rich hand-encoded packets of the C08 corpus, made unique by the transaction id
		b := v4Packet(t.Choose(40))
		b[4], b[5], b[6], b[7] = 0x52, byte(i>>16), byte(i>>8), byte(i)
		return b
	}
	typ := dhcpv4.MessageType(1 + t.Choose(8))
	hw := net.HardwareAddr{2, 0, 0, byte(i >> 8), byte(i), byte(t.Choose(4))}
	mods := []dhcpv4.Modifier{
		dhcpv4.WithMessageType(typ),
		dhcpv4.WithTransactionID(xid4(0x51000000 | uint32(i))),
		dhcpv4.WithHwAddr(hw),
	}
	if t.Coin(1, 2) {
		mods = append(mods, dhcpv4.WithOption(dhcpv4.OptRequestedIPAddress(net.IPv4(10, 1, byte(i>>8), byte(i)))))
	}
	if t.Coin(1, 3) {
		mods = append(mods, dhcpv4.WithOption(dhcpv4.OptHostName(fmt.Sprintf("host-%d", i))))
	}
	if t.Coin(1, 3) {
		mods = append(mods, dhcpv4.WithOption(dhcpv4.OptServerIdentifier(net.IPv4(10, 0, 0, byte(1+t.Choose(3))))))
	}
	if t.Coin(1, 4) {
		mods = append(mods, dhcpv4.WithGeneric(dhcpv4.GenericOptionCode(224), bytes.Repeat([]byte{byte(i)}, 1+t.Choose(200))))
	}
	if t.Coin(1, 3) {
		// relayed / renewing clients: the address fields of the header are in use
		mods = append(mods, dhcpv4.WithGatewayIP(net.IPv4(10, 9, byte(t.Choose(3)), 1)), dhcpv4.WithClientIP(net.IPv4(10, 8, 0, byte(1+t.Choose(9)))))
	}
	m, err := dhcpv4.New(mods...)
	if err != nil {
		panic(err)
	}
	if t.Coin(1, 3) {
		m.OpCode = dhcpv4.OpcodeBootReply
	}
	if t.Coin(1, 4) {
		m.ServerHostName = fmt.Sprintf("srv-%d.example", i)
		m.BootFileName = "/boot/" + fmt.Sprint(i)
	}
	return m.ToBytes()
}

func (srv4) Mutate(b []byte, t *simrt.Tape) ([]byte, string) { return mutateV4(b, t) }

func (srv4) ExpectPeer(from net.Addr) string {
	u := from.(*net.UDPAddr)
	if u.IP == nil || u.IP.To4().Equal(net.IPv4zero) {
		return (&net.UDPAddr{IP: net.IPv4bcast, Port: u.Port}).String()
	}
	return u.String()
}

func (srv4) Sender(t *simrt.Tape) net.Addr {
	port := []int{68, 1068, 2068, 0, 65535, 67}[t.Weighted(4, 2, 2, 1, 1, 2)] // 67: relay agents send from the server port
	switch t.Weighted(4, 2, 2, 1) {
	case 1:
		return &net.UDPAddr{IP: net.IPv4zero, Port: port} // 16-byte form of 0.0.0.0
	case 2:
		return &net.UDPAddr{IP: nil, Port: port}
	case 3:
		return &net.UDPAddr{IP: net.IP{0, 0, 0, 0}, Port: port} // 4-byte form
	}
	ip := net.IPv4(192, 168, byte(t.Choose(3)), byte(1+t.Choose(200))) // 16-byte, IPv4-mapped form
	switch t.Weighted(3, 1, 1) {
	case 1:
		ip = ip.To4()
	case 2:
		return &net.UDPAddr{IP: ip, Port: port, Zone: "eth1"}
	}
	return &net.UDPAddr{IP: ip, Port: port}
}

type srv6 struct{}

func (srv6) Name() string { return "v6" }

func (srv6) Start(conn net.PacketConn, handler func(net.Addr, interface{}), logf func(string)) (func() error, func() error, error) {
	h := func(c net.PacketConn, peer net.Addr, m dhcpv6.DHCPv6) { handler(peer, m) }
	lopt := server6.WithLogger(srvLogger6{logf})
	switch srvLoggerVariant {
	case 1:
		lopt = server6.WithDebugLogger()
	case 2:
		lopt = server6.WithSummaryLogger()
	}
	s, err := server6.NewServer("", nil, h, server6.WithConn(conn), lopt)
	if err != nil {
		return nil, nil, err
	}
	return s.Serve, s.Close, nil
}

func (srv6) Canon(b []byte) ([]byte, bool) {
	m, err := dhcpv6.FromBytes(append([]byte(nil), b...))
	if err != nil {
		return nil, false
	}
	return m.ToBytes(), true
}

func (srv6) MsgBytes(m interface{}) []byte {
	p, _ := m.(dhcpv6.DHCPv6)
	if p == nil {
		return nil
	}
	return p.ToBytes()
}

func (srv6) Valid(i int, t *simrt.Tape) []byte {
	if t.Coin(1, 3) {
		// the hand-encoded corpus of C08: every option type, relay chains
		var b []byte
		switch t.Weighted(2, 1, 2) {
		case 0:
			b = v6Message(t.Choose(40))
			b[1], b[2], b[3] = 0x52, byte(i>>8), byte(i)
		case 1:
			b = v6Shuffled(t.Choose(40), t) // drawn subset and order of options, some twice
			b[1], b[2], b[3] = 0x53, byte(i>>8), byte(i)
		default:
			b = v6Relay(t.Choose(40), 1+t.Choose(3))
			b[1] = byte(i) // hop count: makes relayed datagrams distinguishable
		}
		return b
	}
	types := []dhcpv6.MessageType{dhcpv6.MessageTypeSolicit, dhcpv6.MessageTypeAdvertise, dhcpv6.MessageTypeRequest, dhcpv6.MessageTypeConfirm,
		dhcpv6.MessageTypeRenew, dhcpv6.MessageTypeRebind, dhcpv6.MessageTypeReply, dhcpv6.MessageTypeRelease, dhcpv6.MessageTypeDecline,
		dhcpv6.MessageTypeReconfigure, dhcpv6.MessageTypeInformationRequest}
	hw := net.HardwareAddr{2, 0, 0, byte(i >> 8), byte(i), 7}
	m, err := dhcpv6.NewSolicit(hw, dhcpv6.WithClientID(&dhcpv6.DUIDLL{HWType: 1, LinkLayerAddr: hw}), withXid6(0x510000|uint32(i)))
	if err != nil {
		panic(err)
	}
	m.MessageType = types[t.Choose(len(types))]
	if t.Coin(1, 3) {
		m.AddOption(&dhcpv6.OptionGeneric{OptionCode: dhcpv6.OptionCode(serialOpt6), OptionData: bytes.Repeat([]byte{byte(i)}, 1+t.Choose(100))})
	}
	if t.Coin(1, 3) {
		m.AddOption(dhcpv6.OptServerID(&dhcpv6.DUIDLL{HWType: 1, LinkLayerAddr: net.HardwareAddr{2, 9, 9, 9, 9, byte(t.Choose(3))}}))
	}
	var d dhcpv6.DHCPv6 = m
	if t.Coin(1, 12) {
		// a relay envelope that carries no relay-message option (only an interface id):
		// the library decodes it, so it is a valid datagram for the handler
		d = &dhcpv6.RelayMessage{MessageType: dhcpv6.MessageTypeRelayForward, HopCount: uint8(i), LinkAddr: net.ParseIP("2001:db8::77"),
			PeerAddr: net.ParseIP(fmt.Sprintf("fe80::%x", 1+i%200)),
			Options:  dhcpv6.RelayOptions{Options: dhcpv6.Options{dhcpv6.OptInterfaceID([]byte{byte(i >> 8), byte(i), 0x1f})}}}
	}
	for depth := t.Weighted(5, 2, 1, 1); depth > 0; depth-- {
		typ := dhcpv6.MessageTypeRelayForward
		if t.Coin(1, 3) {
			typ = dhcpv6.MessageTypeRelayReply
		}
		r, err := dhcpv6.EncapsulateRelay(d, typ, net.ParseIP(fmt.Sprintf("2001:db8::%x", depth)), net.ParseIP(fmt.Sprintf("fe80::%x", 1+i%200)))
		if err != nil {
			panic(err)
		}
		d = r
	}
	return d.ToBytes()
}

func (srv6) Mutate(b []byte, t *simrt.Tape) ([]byte, string) { return mutateV6Top(b, t) }

func (srv6) ExpectPeer(from net.Addr) string { return from.String() }

func (srv6) Sender(t *simrt.Tape) net.Addr {
	port := 546 + t.Choose(3)*1000
	switch t.Weighted(4, 1, 1) {
	case 1:
		return &net.UDPAddr{IP: net.IPv6unspecified, Port: port}
	case 2:
		return &net.UDPAddr{IP: nil, Port: port}
	}
	return &net.UDPAddr{IP: net.ParseIP(fmt.Sprintf("fe80::%x", 1+t.Choose(500))), Port: port, Zone: "eth0"}
}

// ---------------------------------------------------------------- scenario

type srvRx struct {
	seq   int
	bytes []byte
	from  net.Addr
	peer  string // the peer the handler must be given, computed when the datagram was read
	canon []byte
	valid bool
	taken bool
}

type srvInv struct {
	seq       int
	endSeq    int
	peer      string
	peerAtEnd string
	ptr       interface{}
	atStart   []byte
	atEnd     []byte
	done      bool
	waitedFor bool
	wroteOwn  bool
}

type srvState struct {
	s    *simrt.Sim
	p    srvProto
	tape *simrt.Tape
	conn *Conn
	net  *Net

	rx   []*srvRx
	invs []*srvInv
	sent [][]byte // datagrams generated so far (before truncation / corruption faults)

	badHeavy bool // most datagrams of this run are undecodable

	serveReturned bool
	serveRetSeq   int
	serveErr      error
	closeInvSeq   int
	closeSeqs     []int
	readErrSeq    int
	startErr      error
	delivered     int
	planned       int
	validStarted  int
	nextGates     map[int]*Gate // handler index -> gate opened when the next valid handler starts
	blockedRule   string
	drained       *Gate
	allScheduled  bool
	handlerSleep  []time.Duration
	waiters       int
}

var (
	siteSrvMain    = simrt.HSite("srv.main")
	siteSrvHandler = simrt.HSite("srv.handler")
	siteSrvCloser  = simrt.HSite("srv.closer")
)

func srvScenario(name string, p srvProto) *Scenario {
	return &Scenario{Name: name, Property: "C14", Run: func(s *simrt.Sim, tier string) func(simrt.RunResult) []simrt.Violation {
		t := s.Tape()
		st := &srvState{s: s, p: p, tape: t, nextGates: map[int]*Gate{}}
		s.EnableHB()
		s.AllowStall = t.Coin(1, 4)
		if s.AllowStall {
			s.StallPermille = 15
		}
		s.Probe("policy-" + pickPolicy(s))
		st.start(tier)
		return func(res simrt.RunResult) []simrt.Violation {
			v := &vio{}
			st.oracle(v)
			return v.list
		}
	}}
}

func (st *srvState) start(tier string) {
	s, t, p := st.s, st.tape, st.p
	// sequence length: mostly short, sometimes up to 200
	n := []int{0, 1, 2, 3, 5, 8, 15, 30, 60, 120, 200}[t.Weighted(1, 3, 3, 3, 4, 4, 3, 2, 1, 1, 1)]
	st.planned = n
	srvLoggerVariant = t.Weighted(3, 1, 1)
	st.badHeavy = t.Coin(1, 8)
	if st.badHeavy {
		s.Probe("run-with-mostly-bad-datagrams")
	}
	waitNextNum := []int{0, 30, 70}[t.Weighted(2, 2, 1)]
	corruptNum := swarmRate(t, 5, 30)
	closeKind := t.Weighted(4, 3, 3) // 0: close at the end, 1: Close at a drawn point, 2: read error at a drawn point
	s.GoTask("main", func() {
		st.conn = NewConn(s, "sconn", &net.UDPAddr{IP: net.IPv4zero, Port: 67})
		st.drained = NewGate(s, "srv.drained")
		st.conn.OnIdle = st.checkDrained
		st.net = NewNet(s)
		st.conn.OnRead = func(d dgram, nread int) {
			if len(d.b) <= 4096 {
				nread = len(d.b) // judged as on the wire: the servers read up to 4096 bytes
			}
			b := append([]byte(nil), d.b[:nread]...)
			r := &srvRx{bytes: b, from: d.from, peer: p.ExpectPeer(d.from)}
			r.canon, r.valid = p.Canon(b)
			r.seq = s.Ev("rx", -1, int64(len(st.rx)), fmt.Sprintf("%s len=%d valid=%v from=%v", d.tag, nread, r.valid, d.from), nil)
			st.rx = append(st.rx, r)
		}
		logf := func(m string) { s.Ev("log", -1, 0, m, nil) }
		s.EnterSUT()
		serve, closeFn, err := p.Start(st.conn, st.handler(waitNextNum), logf)
		s.LeaveSUT()
		if err != nil {
			st.startErr = err
			st.net.Stop(true)
			return
		}
		j := newJoiner(s, "serve")
		j.Go("serve", func() {
			s.EnterSUT()
			err := serve()
			s.LeaveSUT()
			st.serveErr = err
			st.serveReturned = true
			st.drained.Open()
			st.serveRetSeq = s.Ev("serve.return", -1, 0, fmt.Sprint(err), nil)
		})
		// traffic
		at := time.Duration(0)
		stopAt := -1
		if closeKind != 0 && n > 0 {
			stopAt = t.Choose(n + 1)
		}
		for i := 0; i < n; i++ {
			at += pick(t, 0, 0, ms(1)/2, ms(1), ms(3))
			b, tag := st.datagram(i, corruptNum)
			from := p.Sender(t)
			if i == stopAt {
				st.scheduleStop(closeKind, at, closeFn, j)
			}
			st.net.After(at, func() {
				s.Stimulus()
				st.delivered++
				st.conn.Deliver(dgram{b: b, from: from, tag: tag})
			})
		}
		if stopAt == n || (closeKind != 0 && n == 0) {
			st.scheduleStop(closeKind, at+ms(1), closeFn, j)
		}
		// Wait until the traffic has been consumed or the server has stopped. This is
		// event driven (no virtual-time deadline: the stalled-task fault moves the clock
		// while tasks are ready): a loop that stops reading while handlers still wait
		// for the next datagram leaves nothing runnable, which the scheduler reports
		// as a deadlock.
		st.allScheduled = true
		st.checkDrained()
		st.drained.Wait()
		s.Stimulus()
		s.Ev("gates.open", -1, 0, "", nil)
		for _, g := range st.nextGates {
			g.Open()
		}
		st.nextGates = nil
		if !st.serveReturned {
			st.closeInvSeq = s.Ev("close.invoke", -1, 0, "final", nil)
			st.closeSeqs = append(st.closeSeqs, st.closeInvSeq)
			s.EnterSUT()
			closeFn()
			s.LeaveSUT()
		}
		j.Wait()
		st.net.Stop(true)
	})
}

// checkDrained opens the gate main waits on once every planned datagram has been
// delivered and the reader has come back to an empty queue.
func (st *srvState) checkDrained() {
	if st.allScheduled && st.delivered == st.planned && st.conn.Pending() == 0 && st.conn.ReaderWaiting() {
		st.drained.Open()
	}
}

func (st *srvState) running() int {
	n := 0
	for _, i := range st.invs {
		if !i.done {
			n++
		}
	}
	return n
}

func (st *srvState) scheduleStop(kind int, at time.Duration, closeFn func() error, j *joiner) {
	s := st.s
	switch kind {
	case 1:
		j.Go("closer", func() {
			sleep(at, siteSrvCloser)
			s.Stimulus()
			seq := s.Ev("close.invoke", -1, 0, "", nil)
			st.closeSeqs = append(st.closeSeqs, seq)
			s.EnterSUT()
			err := closeFn()
			s.LeaveSUT()
			s.Ev("close.return", -1, 0, fmt.Sprint(err), nil)
		})
	case 2:
		st.net.After(at, func() {
			s.Stimulus()
			s.Fault("read-error")
			st.readErrSeq = s.Ev("fault.readerr", -1, 0, "", nil)
			st.conn.Deliver(dgram{err: errInjectedRead})
		})
	}
}

func (st *srvState) datagram(i int, corruptNum int) ([]byte, string) {
	t := st.tape
	s := st.s
	b := st.p.Valid(i, t)
	tag := "valid"
	switch t.Weighted(12, 2, 2, 4) {
	case 1:
		// an identical copy of an earlier datagram (a retransmission): one more dispatch is due
		if len(st.sent) > 0 {
			b = st.sent[t.Choose(len(st.sent))]
			tag = "valid-repeat"
			s.Fault("repeat-of-earlier-datagram")
		}
	case 2:
		// same exchange (header, transaction id, hardware address) as an earlier datagram, other options
		if len(st.sent) > 0 {
			if m, w := st.p.Mutate(st.sent[t.Choose(len(st.sent))], t); w != "" {
				b, tag = m, "same-exchange "+w
				s.Fault("same-exchange-as-earlier-datagram")
			}
		}
	case 3:
		if m, w := st.p.Mutate(b, t); w != "" {
			b, tag = m, w
			s.Fault("shape-mutation")
		}
	}
	st.sent = append(st.sent, b)
	kind := 0
	if st.badHeavy {
		kind = t.Weighted(3, 4, 3, 3, 1) // a run in which most datagrams are bad (scanner, broken peer)
	} else {
		kind = t.Weighted(12, 2, 1, 1, 1)
	}
	switch kind {
	case 1:
		cut := t.Choose(len(b))
		b = b[:cut]
		tag = "truncated"
		s.Fault("truncated")
	case 2:
		b = []byte{}
		tag = "empty"
		s.Fault("empty")
	case 3:
		g := make([]byte, 1+t.Choose(400))
		x := uint32(i)*2654435761 + 12345
		for k := range g {
			x = x*1664525 + 1013904223
			g[k] = byte(x >> 24)
		}
		b = g
		tag = "garbage"
		s.Fault("garbage")
	case 4:
		// oversize: more than the server's 4096-byte read buffer
		pad := make([]byte, 4096+t.Choose(600))
		copy(pad, b)
		if st.p.Name() == "v4" && len(b) > 0 {
			// keep it option-shaped: overwrite the end marker with pad options (code 0)
			for k := len(b) - 1; k < len(pad); k++ {
				pad[k] = 0
			}
		}
		b = pad
		tag = "oversize"
		s.Fault("oversize")
	}
	if corruptNum > 0 && len(b) > 0 && t.Coin(corruptNum, 100) {
		b = append([]byte(nil), b...)
		k := t.Choose(len(b))
		b[k] ^= 1 << uint(t.Choose(8))
		tag += "+corrupt"
		s.Fault("corrupt")
	}
	return b, tag
}

func (st *srvState) handler(waitNextNum int) func(peer net.Addr, m interface{}) {
	s, t, p := st.s, st.tape, st.p
	return func(peer net.Addr, m interface{}) {
		inv := &srvInv{ptr: m}
		if peer != nil {
			inv.peer = peer.String()
		}
		inv.atStart = p.MsgBytes(m)
		idx := len(st.invs)
		st.invs = append(st.invs, inv)
		inv.seq = s.Ev("handler.start", idx, int64(len(inv.atStart)), inv.peer, nil)
		// whoever waited for "the next valid datagram's handler" may go on now
		if g := st.nextGates[idx-1]; g != nil {
			g.Open()
			delete(st.nextGates, idx-1)
		}
		// A handler may do what it likes with its own message, e.g. fill in addresses in
		// place; nobody else's message may change because of that.
		if t.Coin(1, 5) {
			inv.wroteOwn = true
			scribbleOwn(reflect.ValueOf(m), 0)
			s.Probe("handler-writes-into-its-own-message")
			// ... and with the peer address it was given (e.g. set the reply port in place)
			if u, ok := peer.(*net.UDPAddr); ok && u != nil && t.Coin(1, 2) {
				u.Port = 9 // (never the IP bytes: they may be one of package net's shared values)
				inv.peerAtEnd = ""
				peer = nil
			}
		}
		// outlive the next reads
		if st.nextGates != nil && waitNextNum > 0 && t.Coin(waitNextNum, 100) {
			g := NewGate(s, fmt.Sprintf("next%d", idx))
			st.nextGates[idx] = g
			inv.waitedFor = true
			s.Probe("handler-waits-for-next")
			g.Wait()
		} else {
			sleep(pick(t, 0, 0, ms(1), ms(5), ms(20)), siteSrvHandler)
		}
		inv.atEnd = p.MsgBytes(m)
		if peer != nil {
			inv.peerAtEnd = peer.String()
		}
		inv.done = true
		inv.endSeq = s.Ev("handler.end", idx, int64(len(inv.atEnd)), "", nil)
	}
}

// scribbleOwn overwrites, in place, every byte slice reachable from m through
// exported fields (addresses, hardware address, option values).
func scribbleOwn(v reflect.Value, depth int) {
	if depth > 6 {
		return
	}
	switch v.Kind() {
	case reflect.Ptr, reflect.Interface:
		if !v.IsNil() {
			scribbleOwn(v.Elem(), depth+1)
		}
	case reflect.Struct:
		for i := 0; i < v.NumField(); i++ {
			if v.Type().Field(i).PkgPath == "" {
				scribbleOwn(v.Field(i), depth+1)
			}
		}
	case reflect.Slice:
		if v.Type().Elem().Kind() == reflect.Uint8 {
			for i := 0; i < v.Len(); i++ {
				if v.Index(i).CanSet() {
					v.Index(i).SetUint(0x11)
				}
			}
			return
		}
		for i := 0; i < v.Len(); i++ {
			scribbleOwn(v.Index(i), depth+1)
		}
	case reflect.Map:
		for _, k := range v.MapKeys() {
			scribbleOwn(v.MapIndex(k), depth+1)
		}
	}
}

func (st *srvState) oracle(v *vio) {
	p := st.p
	if st.startErr != nil {
		v.add("harness", "server construction failed: %v", st.startErr)
		return
	}
	if st.blockedRule != "" {
		v.add("V-blocked", "%s", st.blockedRule)
	}
	st.s.Probes["handler-invocations"] += len(st.invs)
	for _, r := range st.rx {
		if r.valid {
			st.s.Probes["datagrams-read-decodable"]++
		} else {
			st.s.Probes["datagrams-read-undecodable"]++
		}
	}
	if st.readErrSeq != 0 {
		st.s.Probe("serve-ended-by-read-error")
	} else if len(st.closeSeqs) > 0 && st.closeSeqs[0] != st.closeInvSeq {
		st.s.Probe("serve-ended-by-close-midstream")
	}
	// exactly-once dispatch: multiset of (peer, canonical bytes)
	want := map[string]int{}
	for _, r := range st.rx {
		if r.valid {
			want[r.peer+"|"+string(r.canon)]++
		}
	}
	got := map[string]int{}
	ptrs := map[interface{}]int{}
	for i, inv := range st.invs {
		if inv.ptr == nil || inv.atStart == nil {
			v.add("V-nil", "handler invocation %d was given a nil message", i)
			continue
		}
		got[inv.peer+"|"+string(inv.atStart)]++
		ptrs[inv.ptr]++
		if ptrs[inv.ptr] == 2 {
			v.add("V-shared", "handler invocations share one message object (invocation %d)", i)
		}
		if inv.done && inv.peerAtEnd != "" && inv.peerAtEnd != inv.peer {
			v.add("V-peer-mutated", "handler invocation %d: its peer address was %s when it started and %s when it finished (later datagrams were read meanwhile)", i, inv.peer, inv.peerAtEnd)
		}
		if inv.done && !bytes.Equal(p.MsgBytes(inv.ptr), inv.atEnd) {
			// a handler may keep its message (a lease table, a reply sent later): it stays what it was
			v.add("V-mutated-after-return", "handler invocation %d: the message it was given changed after the handler had returned (it re-encodes to %d bytes now, %d when the handler finished)", i, len(p.MsgBytes(inv.ptr)), len(inv.atEnd))
		}
		if inv.done && !inv.wroteOwn && !bytes.Equal(inv.atStart, inv.atEnd) {
			v.add("V-mutated", "handler invocation %d: the message changed while the handler ran (later datagrams were read meanwhile): %d bytes at start, %d at end", i, len(inv.atStart), len(inv.atEnd))
		}
	}
	keys := map[string]bool{}
	for k := range want {
		keys[k] = true
	}
	for k := range got {
		keys[k] = true
	}
	var ks []string
	for k := range keys {
		ks = append(ks, k)
	}
	sort.Strings(ks)
	for _, k := range ks {
		w, g := want[k], got[k]
		peer := k[:bytes.IndexByte([]byte(k), '|')]
		switch {
		case g < w:
			// which datagram?
			v.add("V-missed", "%d valid datagram(s) read from the socket (peer %s, %d bytes canonical) got no handler invocation (%d read, %d dispatched)", w-g, peer, len(k)-len(peer)-1, w, g)
		case g > w:
			if w == 0 {
				v.add("V-spurious", "handler invoked %d time(s) with (peer %s, %d bytes) which matches no decodable datagram read from the socket with that sender", g, peer, len(k)-len(peer)-1)
			} else {
				v.add("V-duplicate", "handler invoked %d times for (peer %s) but only %d such datagram(s) were read", g, peer, w)
			}
		}
	}
	// Serve returns only when reading fails or the server is closed
	if st.serveReturned {
		stopSeq := 1 << 30
		for _, c := range st.closeSeqs {
			if c < stopSeq {
				stopSeq = c
			}
		}
		if st.readErrSeq != 0 && st.readErrSeq < stopSeq {
			stopSeq = st.readErrSeq
		}
		if st.serveRetSeq < stopSeq {
			v.add("V-early-return", "Serve returned at #%d (err=%v) although no read had failed and the server had not been closed", st.serveRetSeq, st.serveErr)
		}
	}
}

func init() {
	register(srvScenario("c14-v4", srv4{}))
	register(srvScenario("c14-v6", srv6{}))
}
