//go:build go1.25

package zzsimharness

import (
	"encoding/binary"

	simrt "github.com/insomniacslk/dhcp/zzsimrt"
)

// Structure-aware mutation of otherwise valid datagrams (DESIGN.md §3.4, "shape
// mutation"): the hand-written corpora and generators cover every option *type*; this
// covers option *shapes* nobody thought of listing (an option with no value, a flag
// option with a payload, an option repeated, an option in a container it does not belong
// to, an unknown code, a value one byte short). It works on the TLV structure with an
// independent reader/writer, never through the library, and every choice comes from the
// tape. What a mutated datagram *means* is never assumed by an oracle: the scenarios that
// use it (C08, C14, C10 noise) judge against the library's own decoding of a private copy.

type tlv struct {
	code int
	val  []byte
}

// ---------------------------------------------------------------- DHCPv4

// splitV4 splits a BOOTP/DHCP datagram into its fixed part (236 bytes + cookie) and its
// options (pad and end removed). ok is false if the datagram is not option-shaped.
func splitV4(b []byte) (head []byte, opts []tlv, ok bool) {
	if len(b) < 240 || b[236] != 99 || b[237] != 130 || b[238] != 83 || b[239] != 99 {
		return nil, nil, false
	}
	head = append([]byte(nil), b[:240]...)
	i := 240
	for i < len(b) {
		c := int(b[i])
		if c == 255 {
			break
		}
		if c == 0 {
			i++
			continue
		}
		if i+1 >= len(b) {
			return nil, nil, false
		}
		l := int(b[i+1])
		if i+2+l > len(b) {
			return nil, nil, false
		}
		opts = append(opts, tlv{c, append([]byte(nil), b[i+2:i+2+l]...)})
		i += 2 + l
	}
	return head, opts, true
}

func joinV4(head []byte, opts []tlv) []byte {
	out := append([]byte(nil), head...)
	for _, o := range opts {
		v := o.val
		if len(v) > 255 {
			v = v[:255]
		}
		out = append(out, byte(o.code), byte(len(v)))
		out = append(out, v...)
	}
	out = append(out, 255)
	for len(out) < 300 {
		out = append(out, 0)
	}
	return out
}

// codes worth trying in DHCPv4: every option the library gives a typed meaning to, the
// ones with special roles in the codec (overload 52, message type 53, relay agent 82,
// end-adjacent 254) and a few it does not know.
var v4Codes = []int{1, 3, 6, 12, 15, 28, 33, 42, 43, 50, 51, 52, 53, 54, 55, 56, 57, 58, 59, 60, 61, 66, 67, 77, 81, 82, 93, 94, 97, 114, 119, 120, 121, 124, 125, 150, 175, 224, 249, 252, 254, 2, 100, 200}

func randBytes(t *simrt.Tape, n int) []byte {
	b := make([]byte, n)
	for i := range b {
		b[i] = byte(t.Choose(256))
	}
	return b
}

func mutLen(t *simrt.Tape) int {
	return []int{0, 0, 1, 2, 3, 4, 5, 8, 16, 17}[t.Choose(10)]
}

func mutateTLVs(opts []tlv, codes []int, maxCode int, t *simrt.Tape) ([]tlv, string) {
	what := ""
	switch k := t.Weighted(3, 3, 2, 2, 2, 1, 1); k {
	case 0: // an option loses its value
		if len(opts) > 0 {
			i := t.Choose(len(opts))
			opts[i].val = nil
			what = "zero-length"
		}
	case 1: // an extra option: interesting code, short drawn value
		o := tlv{codes[t.Choose(len(codes))], randBytes(t, mutLen(t))}
		if t.Coin(1, 6) {
			o.code = 1 + t.Choose(maxCode)
		}
		at := t.Choose(len(opts) + 1)
		opts = append(opts[:at], append([]tlv{o}, opts[at:]...)...)
		what = "extra-option"
	case 2: // an option occurs twice
		if len(opts) > 0 {
			i := t.Choose(len(opts))
			d := tlv{opts[i].code, append([]byte(nil), opts[i].val...)}
			at := t.Choose(len(opts) + 1)
			opts = append(opts[:at], append([]tlv{d}, opts[at:]...)...)
			what = "repeated-option"
		}
	case 3: // another code on the same value
		if len(opts) > 0 {
			i := t.Choose(len(opts))
			opts[i].code = codes[t.Choose(len(codes))]
			what = "recoded-option"
		}
	case 4: // value one byte short / one byte long
		if len(opts) > 0 {
			i := t.Choose(len(opts))
			if len(opts[i].val) > 0 && t.Coin(1, 2) {
				opts[i].val = opts[i].val[:len(opts[i].val)-1]
				what = "value-one-short"
			} else {
				opts[i].val = append(opts[i].val, byte(t.Choose(256)))
				what = "value-one-long"
			}
		}
	case 5: // an option disappears
		if len(opts) > 0 {
			i := t.Choose(len(opts))
			opts = append(opts[:i], opts[i+1:]...)
			what = "dropped-option"
		}
	case 6: // two options change places
		if len(opts) > 1 {
			i, j := t.Choose(len(opts)), t.Choose(len(opts))
			opts[i], opts[j] = opts[j], opts[i]
			what = "swapped-options"
		}
	}
	return opts, what
}

// mutateV4 applies 1-3 shape mutations to the options of a DHCPv4 datagram. It returns
// the datagram unchanged (and "") if it is not option-shaped.
func mutateV4(b []byte, t *simrt.Tape) ([]byte, string) {
	head, opts, ok := splitV4(b)
	if !ok {
		return b, ""
	}
	tag := ""
	for n := 1 + t.Weighted(4, 2, 1); n > 0; n-- {
		var w string
		opts, w = mutateTLVs(opts, v4Codes, 254, t)
		if w != "" {
			tag += "+" + w
		}
	}
	if tag == "" {
		return b, ""
	}
	return joinV4(head, opts), "shape" + tag
}

// ---------------------------------------------------------------- DHCPv6

func splitV6Opts(b []byte) ([]tlv, bool) {
	var opts []tlv
	i := 0
	for i < len(b) {
		if i+4 > len(b) {
			return nil, false
		}
		c := int(binary.BigEndian.Uint16(b[i:]))
		l := int(binary.BigEndian.Uint16(b[i+2:]))
		if i+4+l > len(b) {
			return nil, false
		}
		opts = append(opts, tlv{c, append([]byte(nil), b[i+4:i+4+l]...)})
		i += 4 + l
	}
	return opts, true
}

func joinV6Opts(opts []tlv) []byte {
	var out []byte
	for _, o := range opts {
		var h [4]byte
		binary.BigEndian.PutUint16(h[0:], uint16(o.code))
		binary.BigEndian.PutUint16(h[2:], uint16(len(o.val)))
		out = append(out, h[:]...)
		out = append(out, o.val...)
	}
	return out
}

// every option code the DHCPv6 parser knows, the flag options (14 rapid commit, 20
// reconfigure accept), and a few unknown ones
var v6Codes = []int{1, 2, 3, 4, 5, 6, 7, 8, 9, 11, 12, 13, 14, 15, 16, 17, 18, 19, 20, 23, 24, 25, 26, 32, 37, 39, 56, 59, 60, 61, 62, 79, 82, 87, 88, 94, 95, 96, 135, 10, 21, 99, 65001}

// containers: option code -> length of the fixed part in front of the nested options
var v6Containers = map[int]int{3: 12, 4: 4, 25: 12, 5: 24, 26: 25, 17: 4}

func mutateV6Opts(raw []byte, depth int, t *simrt.Tape) ([]byte, string) {
	opts, ok := splitV6Opts(raw)
	if !ok {
		return raw, ""
	}
	// sometimes go down into a container (or a relayed message) instead
	if depth < 3 && len(opts) > 0 && t.Coin(1, 3) {
		var idx []int
		for i, o := range opts {
			if fixed, isC := v6Containers[o.code]; (isC && len(o.val) >= fixed) || (o.code == 9 && len(o.val) >= 4) {
				idx = append(idx, i)
			}
		}
		if len(idx) > 0 {
			i := idx[t.Choose(len(idx))]
			o := opts[i]
			if o.code == 9 {
				inner, w := mutateV6(o.val, depth+1, t)
				if w != "" {
					opts[i].val = inner
					return joinV6Opts(opts), "relayed:" + w
				}
			} else {
				fixed := v6Containers[o.code]
				inner, w := mutateV6Opts(o.val[fixed:], depth+1, t)
				if w != "" {
					opts[i].val = append(append([]byte(nil), o.val[:fixed]...), inner...)
					return joinV6Opts(opts), "nested:" + w
				}
			}
		}
	}
	var w string
	opts, w = mutateTLVs(opts, v6Codes, 300, t)
	if w == "" {
		return raw, ""
	}
	return joinV6Opts(opts), w
}

// mutateV6 applies a shape mutation to a DHCPv6 message or relay message.
func mutateV6(b []byte, depth int, t *simrt.Tape) ([]byte, string) {
	if len(b) < 4 {
		return b, ""
	}
	hl := 4
	if b[0] == 12 || b[0] == 13 { // relay-forward / relay-reply
		hl = 34
	}
	if len(b) < hl {
		return b, ""
	}
	opts, w := mutateV6Opts(b[hl:], depth, t)
	if w == "" {
		return b, ""
	}
	return append(append([]byte(nil), b[:hl]...), opts...), w
}

func mutateV6Top(b []byte, t *simrt.Tape) ([]byte, string) {
	tag := ""
	for n := 1 + t.Weighted(4, 2, 1); n > 0; n-- {
		var w string
		b, w = mutateV6(b, 0, t)
		if w != "" {
			tag += "+" + w
		}
	}
	if tag == "" {
		return b, ""
	}
	return b, "shape" + tag
}
