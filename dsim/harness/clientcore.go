//go:build go1.25

package zzsimharness

import (
	"context"
	"encoding/binary"
	"fmt"
	"net"
	"time"

	"github.com/insomniacslk/dhcp/dhcpv4/nclient4"
	"github.com/mdlayher/packet"

	simrt "github.com/insomniacslk/dhcp/zzsimrt"
)

// Client-core scenario engine (DESIGN.md §4.2–§4.4): one real nclient4 / nclient6
// client on a simulated PacketConn, caller tasks, a scripted peer, timed stimuli.

type ccMode int

const (
	modeRouting ccMode = iota
	modeLiveness
	modeRetry
)

type matcherKind int

const (
	mkType    matcherKind = iota // accept the acceptable type only
	mkAll                        // accept everything
	mkNil                        // no matcher (nil)
	mkRejectN                    // reject the first n, then by type
	mkGated                      // block on a gate, then by type
)

type ctxKind int

const (
	ctxBackground ctxKind = iota
	ctxCancelAt           // explicit cancel at an absolute virtual instant
	ctxDeadline           // context.WithDeadline on the bubble clock
)

type callSpec struct {
	xid        uint32
	mk         matcherKind
	rejectN    int
	ck         ctxKind
	ctxAt      time.Duration // relative to the start of the run
	startDelay time.Duration // sleep before invoking (relative to previous return)
	inUseRetry int           // how often to re-issue after an in-use refusal
}

type txRec struct {
	invSeq, seq int // event seq when WriteTo was entered / completed
	t           time.Duration
	doneT       time.Duration // when the WriteTo returned (t + injected write delay)
	sameBytes   bool
	destOK      bool
	failed      bool
}

type matchRec struct {
	seq     int
	doneSeq int
	t       time.Duration
	doneT   time.Duration // when the matcher returned its verdict (later than t if it blocked)
	off     bool          // invoked on another goroutine than the caller's
	end     simrt.Stamp   // (off only) taken when the matcher returned
	info    pktInfo
	ptr     interface{}
	isNil   bool
	verdict bool
	bytes   []byte
}

type ccCall struct {
	id      int
	caller  int
	spec    callSpec
	attempt int
	nth     int // index of the call among its caller's planned calls
	offCaller bool // some matcher invocation of this call ran on another goroutine than the caller's
	req     interface{}
	reqWire []byte
	gate    *Gate

	invSeq, retSeq int
	invT, retT     time.Duration
	returned       bool
	err            error
	ret            interface{}
	retInfo        pktInfo
	retNil         bool

	txs     []*txRec
	matches []*matchRec

	nilRet    *matchRec // synthetic hand-over record for a nil-matcher return
	cancelSeq int       // explicit cancel event (0: none)
	cancelT   time.Duration
	nRejected int
}

type rxRec struct {
	seq     int
	doneSeq int // event seq at which the reader came back for the next datagram (0: never)
	t       time.Duration
	info    pktInfo
	bytes   []byte
	canon   []byte // canonical re-encoding of the library decoding (lazily computed by the oracle)
}

type ccCfg struct {
	p         proto
	mode      ccMode
	T         time.Duration
	tries     int
	bufcap    int // -1: library default
	callers   [][]callSpec
	pool      []uint32
	closeAt   time.Duration // <0: only at the end
	gatesAt   time.Duration
	stall     bool
	hb        bool
	logger    bool
	readErrAt time.Duration // <0: none
	closeErr  bool
	slowWrite bool // caller 0's WriteTo calls may take virtual time (retry scenario, no cancellation)
	raw       bool // DHCPv4: the client sits on the real BroadcastRawUDPConn over a simulated link

	// peer behaviour
	replyCount   []int // weights for 0,1,2,... replies per transmission
	kindWeights  []int // weights per replyKind
	delays       []time.Duration
	dupNum       int // duplicates: probability dupNum/100
	corruptNum   int
	writeErrNum  int
	background   int           // unsolicited datagrams
	streamPeriod time.Duration // >0: every transmission triggers a stream of same-id rejected replies with this period
	streamLen    int
	acceptAt     map[int]acceptPlan // retry mode: planned accept per caller-0 call index

	span time.Duration // rough extent of the run, for drawing instants
}

type acceptPlan struct {
	try    int           // 1-based try in which the acceptable reply arrives
	offset time.Duration // offset inside that try
}

type ccState struct {
	s    *simrt.Sim
	cfg  *ccCfg
	tape *simrt.Tape
	net  *Net
	conn *Conn
	cl   clientHandle

	calls        []*ccCall
	rx           []*rxRec
	cur          map[int]*ccCall
	bySerial     map[uint32]*ccCall // request serial -> call (a transmission may come from a helper goroutine)
	serial       uint32
	gates        []*Gate
	gatesOpenSeq int

	closeCalls []closeRec
	delivered  []deliveryRec // datagrams put into the client's socket (in order)
	sockReads  int           // successful reads from the client's socket (raw mode: from the link)
	readErrSeq int
	logs       []string
	newErr     error
}

type deliveryRec struct {
	t   time.Duration
	tag string
}

type closeRec struct {
	invSeq, retSeq int
	invT, retT     time.Duration
	err            error
	liveSUT        int
	returned       bool
}

var (
	siteCallerSleep = simrt.HSite("caller.sleep")
	siteCloserSleep = simrt.HSite("closer.sleep")
	siteMain        = simrt.HSite("main")
)

func (st *ccState) nextSerial() uint32 {
	st.serial++
	return st.serial
}

func (st *ccState) start() {
	s := st.s
	cfg := st.cfg
	s.AllowStall = cfg.stall
	if cfg.hb {
		s.EnableHB()
	}
	st.cur = map[int]*ccCall{}
	s.GoTask("main", func() {
		st.conn = NewConn(s, "cconn", &net.UDPAddr{IP: net.IPv4zero, Port: 68})
		st.net = NewNet(s)
		st.conn.OnWrite = st.onWrite
		st.conn.OnRead = st.onRead
		var cconn net.PacketConn = st.conn
		if cfg.raw {
			// The client talks through the library's raw-frame connection; the harness is the
			// link and the peers' IP/UDP stacks (the reference NIC of the C18 scenario).
			s.Probe("client-on-raw-frame-connection")
			st.conn = NewConn(s, "clink", &packet.Addr{})
			cconn = nclient4.NewBroadcastUDPConn(st.conn, &net.UDPAddr{Port: 68})
			unwrap := func(b []byte) ([]byte, net.Addr, bool) {
				if len(b) < 28 || b[0] != 0x45 || b[9] != 17 {
					return nil, nil, false
				}
				return append([]byte(nil), b[28:]...), &net.UDPAddr{IP: net.IP(append([]byte(nil), b[16:20]...)), Port: int(binary.BigEndian.Uint16(b[22:24]))}, true
			}
			st.conn.OnWrite = func(b []byte, to net.Addr) {
				if p, dst, ok := unwrap(b); ok {
					st.onWrite(p, dst)
				} else {
					s.Violate("R6-frame", "the client emitted a frame that is not IPv4/UDP with a 20-byte header")
				}
			}
			st.conn.OnRead = func(d dgram, n int) {
				st.sockReads++
				e, ok := nicAccept(d.b, &net.UDPAddr{Port: 68})
				if !ok {
					s.Ev("link.skip", -1, int64(len(d.b)), d.tag, nil)
					return
				}
				p := e.payload
				if len(p) > 1500 {
					p = p[:1500] // as cut by the client's 1500-byte read
				}
				st.recordRx(p, d.tag, len(p))
			}
		}
		st.conn.OnReadEnter = func() {
			if n := len(st.rx); n > 0 && st.rx[n-1].doneSeq == 0 {
				st.rx[n-1].doneSeq = s.Seq()
			}
		}
		st.conn.OnWriteFail = func(b []byte, to net.Addr) {
			// a write deadline the client set itself expired before the write began (a stalled
			// task between SetWriteDeadline and WriteTo): a write failure like an injected one
			if cfg.raw && len(b) >= 28 {
				b = b[28:]
			}
			if c := st.callOf(b); c != nil {
				s.Fault("write-deadline-expired")
				tx := &txRec{t: s.Now(), failed: true}
				tx.invSeq = s.Seq()
				tx.seq = s.Ev("tx.fail", c.id, 0, "write deadline", nil)
				c.txs = append(c.txs, tx)
			}
		}
		st.conn.WriteErr = st.writeErr
		if cfg.raw {
			st.conn.WriteErr = func(b []byte, to net.Addr) error {
				if len(b) >= 28 {
					return st.writeErr(b[28:], to)
				}
				return nil
			}
		}
		if cfg.closeErr {
			st.conn.CloseErr = errInjectedClose
		}
		var logf func(string)
		if cfg.logger {
			logf = func(m string) {
				st.logs = append(st.logs, m)
				s.Ev("log", -1, 0, m, nil)
			}
		}
		s.EnterSUT()
		cl, err := cfg.p.NewClient(cconn, cfg.T, cfg.tries, cfg.bufcap, logf, st.tape.Choose(32))
		s.LeaveSUT()
		if err != nil {
			st.newErr = err
			st.net.Stop(true)
			return
		}
		st.cl = cl
		s.Ev("client.new", -1, int64(cfg.tries), fmt.Sprintf("%s T=%v tries=%d cap=%d", cfg.p.Name(), cfg.T, cfg.tries, cfg.bufcap), nil)
		st.background()
		if cfg.readErrAt >= 0 {
			st.net.After(cfg.readErrAt, func() {
				s.Fault("read-error")
				st.readErrSeq = s.Ev("fault.readerr", -1, 0, "", nil)
				st.conn.Deliver(dgram{err: errInjectedRead})
			})
		}
		{
			st.net.After(cfg.gatesAt, func() {
				s.Stimulus()
				st.gatesOpenSeq = s.Ev("gates.open", -1, 0, "", nil)
				for _, g := range st.gates {
					g.Open()
				}
			})
		}
		callers := newJoiner(s, "callers")
		for ci, specs := range cfg.callers {
			ci, specs := ci, specs
			callers.Go(fmt.Sprintf("caller%d", ci), func() { st.caller(ci, specs) })
		}
		closers := newJoiner(s, "closers")
		if cfg.closeAt >= 0 {
			closers.Go("closer", func() {
				sleep(cfg.closeAt, siteCloserSleep)
				st.doClose()
			})
		}
		callers.Wait()
		st.doClose()
		closers.Wait()
		st.net.Stop(true)
	})
}

func (st *ccState) doClose() {
	s := st.s
	s.Stimulus()
	cr := closeRec{invT: s.Now()}
	cr.invSeq = s.Ev("close.invoke", -1, 0, "", nil)
	idx := len(st.closeCalls)
	st.closeCalls = append(st.closeCalls, cr)
	s.EnterSUT()
	err := st.cl.Close()
	s.LeaveSUT()
	c := &st.closeCalls[idx]
	c.err = err
	c.returned = true
	c.retT = s.Now()
	c.liveSUT = s.LiveSUT()
	c.retSeq = s.Ev("close.return", -1, int64(c.liveSUT), fmt.Sprint(err), nil)
}

func (st *ccState) caller(ci int, specs []callSpec) {
	for i, sp := range specs {
		sleep(sp.startDelay, siteCallerSleep)
		for a := 0; ; a++ {
			c := st.doCall(ci, sp, a, i)
			if a >= sp.inUseRetry || !st.refused(c) {
				break
			}
			sleep(time.Millisecond, siteCallerSleep)
		}
	}
}

func (st *ccState) doCall(ci int, sp callSpec, attempt int, nth int) *ccCall {
	s := st.s
	p := st.cfg.p
	c := &ccCall{id: len(st.calls), caller: ci, spec: sp, attempt: attempt, nth: nth}
	st.calls = append(st.calls, c)
	rs := st.nextSerial()
	c.req, c.reqWire = p.BuildRequest(sp.xid, rs)
	if st.bySerial == nil {
		st.bySerial = map[uint32]*ccCall{}
	}
	st.bySerial[rs] = c
	if sp.mk == mkGated {
		c.gate = NewGate(s, fmt.Sprintf("m%d", c.id))
		if st.gatesOpenSeq != 0 {
			c.gate.Open()
		} else {
			st.gates = append(st.gates, c.gate)
		}
	}
	ctx := context.Background()
	var cancel context.CancelFunc
	switch sp.ck {
	case ctxCancelAt:
		ctx, cancel = context.WithCancel(ctx)
		d := sp.ctxAt - s.Now()
		cc := cancel
		st.net.After(d, func() {
			if c.returned {
				return
			}
			s.Stimulus()
			c.cancelT = s.Now()
			c.cancelSeq = s.Ev("cancel", c.id, 0, "", nil)
			cc()
		})
	case ctxDeadline:
		ctx, cancel = context.WithDeadline(ctx, s.Start.Add(sp.ctxAt))
	}
	var match func(m interface{}) bool
	if sp.mk != mkNil {
		match = func(m interface{}) bool { return st.matcher(c, m) }
	}
	if cfg := st.cfg; cfg.tries >= 0 && !cfg.stall && !st.gatedRun() {
		// A call whose retry schedule is finite must be back when it ends. Without this
		// watchdog a call that retransmits for ever keeps the clock moving and the run
		// would end in the (inconclusive) virtual-time budget instead of a verdict.
		slack := time.Millisecond
		if cfg.slowWrite {
			slack += time.Duration(cfg.tries+1) * 4 * cfg.T
		}
		limit := st.bound(c) + slack
		st.net.After(limit, func() {
			if c.returned {
				return
			}
			rule := "T1-bound"
			if cfg.mode == modeRetry {
				rule = "S-total"
			}
			if cfg.mode == modeRouting {
				// how long a call may take is C11's clause (and C12's): a change that breaks only
				// that must not be reported against C10. The run is cut, not judged.
				s.Truncate("run-cut: a call outlived its retry schedule (C11's clause, judged there)")
				return
			}
			s.Abort(rule, "call %d (T=%v tries=%d) has still not returned %v after it was invoked: its retry schedule ends at +%v", c.id, cfg.T, cfg.tries, limit, st.bound(c))
		})
	}
	task := s.CurTask()
	st.cur[task] = c
	c.invT = s.Now()
	c.invSeq = s.Ev("call.invoke", c.id, int64(sp.xid), fmt.Sprintf("caller=%d mk=%d ck=%d ctxAt=%v attempt=%d", ci, sp.mk, sp.ck, sp.ctxAt, attempt), nil)
	s.EnterSUT()
	r, err := st.cl.SendAndRead(ctx, p.Dest(), c.req, match)
	s.LeaveSUT()
	c.retT = s.Now()
	c.returned = true
	c.err = err
	c.ret = r
	for _, m := range c.matches {
		// the client ran this call's matcher on a goroutine of its own: every such invocation
		// must have finished, in the happens-before sense, when the call returns (it does if
		// the client runs matchers under the lock the call takes on its way out; it does not if
		// it runs them unlocked), or a matcher with state races with its caller
		if m.off && st.cfg.hb && st.cfg.mode == modeRouting && (!m.end.OK || !s.Before(m.end)) { // (C10's clause: judged in C10's scenario only)
			s.Violate("R7-matcher-unordered", "call %d returned while an invocation of its matcher on another goroutine (hand-over at #%d) was not ordered before the return: a matcher that keeps state races with its caller", c.id, m.seq)
			break
		}
	}
	desc := "ok"
	if err != nil {
		desc = "err: " + err.Error()
	} else {
		c.retInfo, c.retNil = p.MsgInfo(r)
		desc = fmt.Sprintf("ok serial=%d nil=%v", c.retInfo.Serial, c.retNil)
	}
	c.retSeq = s.Ev("call.return", c.id, int64(c.retInfo.Serial), desc, nil)
	delete(st.cur, task)
	if cancel != nil {
		cancel()
	}
	return c
}

func (st *ccState) matcher(c *ccCall, m interface{}) bool {
	s := st.s
	p := st.cfg.p
	info, isNil := p.MsgInfo(m)
	mr := &matchRec{t: s.Now(), doneT: s.Now(), info: info, ptr: m, isNil: isNil}
	if st.cur[s.CurTask()] != c {
		c.offCaller = true // the client runs this call's matcher on a goroutine of its own
		mr.off = true
		s.Probe("matcher-invoked-off-the-callers-goroutine")
		if c.returned && st.cfg.mode == modeRouting {
			// C10: "none of this involves a data race". A matcher is the caller's code and may keep
			// state; run by the client on another goroutine after the call has returned it is
			// unordered with whatever the caller does next.
			s.Violate("R7-matcher-after-return", "call %d: the client invoked the call's matcher (on another goroutine) after the call had returned", c.id)
		}
		defer func() { mr.end = s.Stamp() }()
	}
	c.matches = append(c.matches, mr)
	if isNil {
		mr.seq = s.Ev("match", c.id, 0, "nil message", nil)
		mr.doneSeq = mr.seq
		mr.verdict = true
		return true
	}
	mr.bytes = p.MsgBytes(m)
	mr.seq = s.Ev("match", c.id, int64(info.Serial), fmt.Sprintf("xid=%x typ=%d", info.Xid, info.Typ), nil)
	if c.gate != nil {
		if !c.gate.IsOpen() {
			s.Probe("matcher-blocked")
		}
		c.gate.Wait()
	}
	v := false
	switch c.spec.mk {
	case mkAll:
		v = true
	case mkType, mkGated:
		v = info.Typ == p.AcceptTyp()
	case mkRejectN:
		if c.nRejected < c.spec.rejectN {
			c.nRejected++
		} else {
			v = info.Typ == p.AcceptTyp()
		}
	}
	mr.verdict = v
	mr.doneT = s.Now()
	mr.doneSeq = s.Ev("match.verdict", c.id, int64(info.Serial), fmt.Sprint(v), nil)
	return v
}

// callOf attributes a transmission to a call: by the serial the harness put into
// the request, else by the task that is transmitting.
func (st *ccState) callOf(b []byte) *ccCall {
	if in := st.cfg.p.Inspect(b); in.Decodes && in.Serial != 0 {
		if c := st.bySerial[in.Serial]; c != nil {
			return c
		}
	}
	return st.cur[st.s.CurTask()]
}

func (st *ccState) writeErr(b []byte, to net.Addr) error {
	s := st.s
	c := st.callOf(b)
	if c == nil {
		return nil
	}
	if st.cfg.writeErrNum > 0 && st.tape.Coin(st.cfg.writeErrNum, 100) {
		s.Fault("write-error")
		tx := &txRec{t: s.Now(), failed: true}
		tx.invSeq = s.Seq()
		tx.seq = s.Ev("tx.fail", c.id, 0, "", nil)
		c.txs = append(c.txs, tx)
		return errInjectedWrite
	}
	return nil
}

func (st *ccState) onWrite(b []byte, to net.Addr) {
	s := st.s
	cfg := st.cfg
	p := cfg.p
	c := st.callOf(b)
	if c == nil {
		s.Probe("transmission-not-attributable-to-a-call")
		return
	}
	tx := &txRec{t: s.Now()}
	tx.sameBytes = string(b) == string(c.reqWire)
	if ua, ok := to.(*net.UDPAddr); ok {
		d := p.Dest()
		tx.destOK = ua.IP.Equal(d.IP) && ua.Port == d.Port && ua.Zone == d.Zone
	}
	tx.invSeq = s.Seq()
	tx.doneT = tx.t
	if cfg.slowWrite && c.caller == 0 && st.tape.Coin(1, 2) {
		d := pick(st.tape, cfg.T/4, cfg.T, cfg.T*7/2)
		st.conn.SetWriteDelay(d)
		tx.doneT = tx.t + d
		s.Fault("slow-write")
	}
	tx.seq = s.Ev("tx", c.id, int64(len(c.txs)+1), fmt.Sprintf("same=%v dest=%v writes-for=%v", tx.sameBytes, tx.destOK, tx.doneT-tx.t), nil)
	c.txs = append(c.txs, tx)
	try := 0
	for _, x := range c.txs {
		if !x.failed {
			try++
		}
	}
	// planned acceptance (retry mode)
	if pl, ok := cfg.acceptAt[c.nth]; ok && c.caller == 0 && pl.try == try {
		st.sendReply(b, rkAccept, pl.offset, c.spec.xid)
	}
	if cfg.streamPeriod > 0 {
		for i := 1; i <= cfg.streamLen; i++ {
			st.sendReply(b, rkReject, time.Duration(i)*cfg.streamPeriod, c.spec.xid)
		}
	}
	n := st.tape.Weighted(cfg.replyCount...)
	for i := 0; i < n; i++ {
		kind := replyKind(st.tape.Weighted(cfg.kindWeights...))
		delay := cfg.delays[st.tape.Choose(len(cfg.delays))]
		alt := st.altXid(c.spec.xid)
		st.sendReply(b, kind, delay, alt)
	}
}

func (st *ccState) altXid(own uint32) uint32 {
	pool := st.cfg.pool
	mask := uint32(1)<<uint(st.cfg.p.XidBits()) - 1
	if len(pool) > 1 && st.tape.Coin(2, 3) {
		x := pool[st.tape.Choose(len(pool))]
		if x != own {
			return x
		}
	}
	return (own ^ 0x5a5a5a) & mask
}

// sendReply builds one reply to the transmission reqWire and schedules its delivery,
// applying the datagram-level faults (duplicate, corruption).
func (st *ccState) sendReply(reqWire []byte, kind replyKind, delay time.Duration, altXid uint32) {
	s := st.s
	cfg := st.cfg
	serial := st.nextSerial()
	b := cfg.p.BuildReply(reqWire, kind, serial, altXid)
	tag := kind.String()
	if cfg.corruptNum > 0 && len(b) > 0 && st.tape.Coin(cfg.corruptNum, 100) {
		i := st.tape.Choose(len(b))
		bit := st.tape.Choose(8)
		b = append([]byte(nil), b...)
		b[i] ^= 1 << uint(bit)
		s.Fault("corrupt")
		tag += "+corrupt"
	}
	from := &net.UDPAddr{IP: net.IPv4(10, 0, 0, 1), Port: 67}
	s.Fault("reply-" + kind.String())
	st.net.After(delay, func() {
		s.Stimulus()
		st.deliver(dgram{b: b, from: from, serial: int(serial), tag: tag})
	})
	if cfg.dupNum > 0 && st.tape.Coin(cfg.dupNum, 100) {
		d2 := delay + cfg.delays[st.tape.Choose(len(cfg.delays))]
		s.Fault("duplicate")
		st.net.After(d2, func() {
			s.Stimulus()
			st.deliver(dgram{b: b, from: from, serial: int(serial), tag: tag + "+dup"})
		})
	}
}

// deliver puts a datagram into the client's socket and remembers that it did.
func (st *ccState) deliver(d dgram) {
	if st.cfg.raw {
		st.deliverFrames(d)
		return
	}
	if !st.conn.Closed() {
		st.delivered = append(st.delivered, deliveryRec{t: st.s.Now(), tag: d.tag})
	}
	st.conn.Deliver(d)
}

// deliverFrames (raw mode) puts the datagram on the link as an IPv4/UDP frame for the
// client's port, sometimes with padding or IP options, and sometimes preceded by a
// frame that is none of the client's business.
func (st *ccState) deliverFrames(d dgram) {
	t := st.tape
	put := func(b []byte, tag string) {
		if !st.conn.Closed() {
			st.delivered = append(st.delivered, deliveryRec{t: st.s.Now(), tag: tag})
		}
		st.conn.Deliver(dgram{b: b, from: &packet.Addr{HardwareAddr: net.HardwareAddr{2, 2, 2, 2, 2, 2}}, serial: d.serial, tag: tag})
	}
	if t.Coin(1, 4) {
		f := frameSpec{ihl: 5, proto: 17, version: 4, cutAt: -1, srcIP: [4]byte{10, 0, 0, 9}, dstIP: [4]byte{255, 255, 255, 255}, srcPort: 67, dstPort: 68, payload: make([]byte, []int{0, 12, 40, 300}[t.Choose(4)])}
		switch t.Choose(5) {
		case 4:
			// for the client's port, but with a UDP length field of 0..7 and nothing DHCP in it
			f.payload = []byte{0xde, 0xad, 0xbe, 0xef, 1, 2, 3, 4, 5, 6, 7, 8}
			f.udpLenField = 1 + t.Choose(8)
		case 0:
			f.dstPort = 67
		case 1:
			f.proto = 6
		case 2:
			f.version = 6
		case 3:
			f.cutAt = 1 + t.Choose(27)
		}
		st.s.Fault("foreign-frame")
		put(buildFrame(f), "foreign-frame")
	}
	if len(d.b) > 1500 {
		// More than the client's 1500-byte read: a raw-frame reader may return such a payload
		// cut or skip it (DESIGN.md §4.7), so it must not matter to any call which of the two
		// happens: it travels under a transaction id nobody uses.
		d.b = append([]byte(nil), d.b...)
		copy(d.b[4:8], []byte{0xde, 0xad, 0xbe, 0xef})
	}
	f := frameSpec{ihl: 5, proto: 17, version: 4, cutAt: -1, srcIP: [4]byte{10, 0, 0, 1}, dstIP: [4]byte{255, 255, 255, 255}, srcPort: 67, dstPort: 68, payload: d.b}
	switch t.Weighted(6, 1, 1) {
	case 1:
		f.padding = 1 + t.Choose(18)
	case 2:
		f.ihl = 6 + t.Choose(3)
	}
	put(buildFrame(f), d.tag)
}

func (st *ccState) gatedRun() bool {
	for _, specs := range st.cfg.callers {
		for _, sp := range specs {
			if sp.mk == mkGated {
				return true
			}
		}
	}
	return false
}

func (st *ccState) background() {
	cfg := st.cfg
	for i := 0; i < cfg.background; i++ {
		xid := cfg.pool[st.tape.Choose(len(cfg.pool))]
		if st.tape.Coin(1, 3) {
			xid = st.altXid(xid)
		}
		_, wire := cfg.p.BuildRequest(xid, st.nextSerial())
		kind := replyKind(st.tape.Weighted(cfg.kindWeights...))
		at := time.Duration(st.tape.Choose(int(cfg.span/time.Millisecond)+1)) * time.Millisecond
		st.s.Fault("unsolicited")
		st.sendReply(wire, kind, at, st.altXid(xid))
	}
}

func (st *ccState) onRead(d dgram, n int) {
	st.sockReads++
	// Judged as it was on the wire: a client that reads a datagram of up to 1500 bytes
	// (its documented maximum message size) into less room and thereby loses or
	// damages it is at fault, not the datagram. Larger ones: as cut by the read.
	b := append([]byte(nil), d.b[:n]...)
	if len(d.b) <= 1500 {
		b = append([]byte(nil), d.b...)
	}
	st.recordRx(b, d.tag, n)
}

func (st *ccState) recordRx(b []byte, tag string, n int) {
	s := st.s
	r := &rxRec{t: s.Now(), bytes: b, info: st.cfg.p.Inspect(b)}
	r.seq = s.Ev("rx", -1, int64(r.info.Serial), fmt.Sprintf("%s len=%d xid=%x typ=%d elig=%v", tag, n, r.info.Xid, r.info.Typ, r.info.Eligible), nil)
	st.rx = append(st.rx, r)
}
