//go:build go1.25

package zzsimharness

import (
	"bytes"
	"encoding/binary"
	"fmt"
	"net"
	"time"

	"github.com/insomniacslk/dhcp/dhcpv4/client4"
	"github.com/insomniacslk/dhcp/dhcpv4/nclient4"
	simrt "github.com/insomniacslk/dhcp/zzsimrt"
	"github.com/mdlayher/packet"
)

// Scenario "rawconn" (DESIGN.md §4.7): the real BroadcastRawUDPConn over a
// simulated link. The peer "NIC" below is an independent RFC 791 / 768 / 1071
// implementation, as a real peer's stack would be.

// csum1071 is the Internet checksum of RFC 1071 (one's complement sum, folded, not inverted).
func csum1071(parts ...[]byte) uint16 {
	var sum uint32
	for _, b := range parts {
		n := len(b)
		for i := 0; i+1 < n; i += 2 {
			sum += uint32(b[i])<<8 | uint32(b[i+1])
		}
		if n%2 == 1 {
			sum += uint32(b[n-1]) << 8
		}
	}
	for sum>>16 != 0 {
		sum = sum&0xffff + sum>>16
	}
	return uint16(sum)
}

type frameSpec struct {
	srcIP, dstIP     [4]byte
	srcPort, dstPort uint16
	payload          []byte
	ihl              int // 32-bit words, 5..15
	proto            byte
	version          byte
	totLenDelta      int    // added to the true total length
	padding          int    // link-layer bytes after the IP datagram
	cutAt            int    // >=0: the frame is truncated to this many bytes
	flagsFO          uint16 // flags and fragment offset word (0x4000 = don't fragment)
	cutAtTotLen      bool   // the frame ends where its total-length field says (no bytes beyond it)
	optStyle         int    // how the IP option area is filled (see ipOptionBytes)
	udpLenField      int    // > 0: written into the UDP length field instead of the true length (minus one: 0 means "true length")
}

// ipOptionBytes fills an IP option area of n bytes (a multiple of 4) with a well-formed
// option list: 0 all no-operation; 1 no-operation then end-of-option-list padding; 2 router
// alert (RFC 2113); 3 record route (RFC 791); 4 a security option (RFC 1108 style, 11
// octets) - each followed by end-of-option-list octets up to the header length. (Source
// route options are not generated: a hardened reader may legitimately refuse them.)
func ipOptionBytes(style, n int) []byte {
	out := make([]byte, 0, n)
	switch style {
	case 0:
		for len(out) < n {
			out = append(out, 1)
		}
		return out
	case 1:
		for len(out) < n-1 {
			out = append(out, 1)
		}
	case 2:
		out = append(out, 0x94, 0x04, 0x00, 0x00)
	case 3:
		if n >= 8 {
			out = append(out, 0x07, 0x07, 0x04, 10, 0, 0, 254)
		}
	case 4:
		if n >= 12 {
			out = append(out, 0x82, 0x0b, 0, 0, 0, 0, 0, 0, 0, 0, 0)
		}
	}
	if len(out) > n {
		out = out[:0]
	}
	for len(out) < n {
		out = append(out, 0) // end of option list, then padding
	}
	return out
}

// buildFrame encodes an IPv4/UDP frame with correct checksums for the header as written.
func buildFrame(f frameSpec) []byte {
	hl := f.ihl * 4
	udpLen := 8 + len(f.payload)
	tot := hl + udpLen
	if f.padding < 0 {
		f.padding = 0
	}
	b := make([]byte, tot+f.padding)
	b[0] = f.version<<4 | byte(f.ihl&0xf)
	binary.BigEndian.PutUint16(b[2:], uint16(tot+f.totLenDelta))
	binary.BigEndian.PutUint16(b[4:], 0x1234)
	binary.BigEndian.PutUint16(b[6:], f.flagsFO)
	b[8] = 64
	b[9] = f.proto
	copy(b[12:16], f.srcIP[:])
	copy(b[16:20], f.dstIP[:])
	if hl > 20 && hl <= len(b) {
		copy(b[20:hl], ipOptionBytes(f.optStyle, hl-20))
	}
	if hl <= len(b) {
		binary.BigEndian.PutUint16(b[10:], ^csum1071(b[:hl]))
	}
	u := b[hl:]
	binary.BigEndian.PutUint16(u[0:], f.srcPort)
	binary.BigEndian.PutUint16(u[2:], f.dstPort)
	binary.BigEndian.PutUint16(u[4:], uint16(udpLen))
	if f.udpLenField > 0 {
		binary.BigEndian.PutUint16(u[4:], uint16(f.udpLenField-1))
	}
	copy(u[8:], f.payload)
	pseudo := make([]byte, 12)
	copy(pseudo[0:4], f.srcIP[:])
	copy(pseudo[4:8], f.dstIP[:])
	pseudo[9] = f.proto
	binary.BigEndian.PutUint16(pseudo[10:], uint16(udpLen))
	c := ^csum1071(pseudo, u[:udpLen])
	if c == 0 {
		c = 0xffff
	}
	binary.BigEndian.PutUint16(u[6:], c)
	for i := tot; i < len(b); i++ {
		b[i] = 0xee // link-layer padding must never be returned as payload
	}
	if f.cutAt >= 0 && f.cutAt < len(b) {
		b = b[:f.cutAt]
	}
	if n := tot + f.totLenDelta; f.cutAtTotLen && n >= 0 && n < len(b) {
		b = b[:n]
	}
	return b
}

type rawExpect struct {
	payload []byte
	src     net.UDPAddr
	bufLen  int  // > 0: the reader offered fewer bytes than the payload; the frame may be returned cut to bufLen bytes or skipped
	loose   bool // the UDP length field disagrees with the IP total length: the result is unspecified (skipped, or any prefix of the IP-bounded payload), but the frame must not disturb anything else
}

// nicAccept is the reference decision: is this frame a well-formed IPv4/UDP datagram for the bound address?
func nicAccept(b []byte, bound *net.UDPAddr) (rawExpect, bool) {
	if len(b) < 20 || b[0]>>4 != 4 {
		return rawExpect{}, false
	}
	hl := int(b[0]&0xf) * 4
	tot := int(binary.BigEndian.Uint16(b[2:]))
	if hl < 20 || hl > tot || tot > len(b) {
		return rawExpect{}, false
	}
	if b[9] != 17 {
		return rawExpect{}, false
	}
	if tot-hl < 8 {
		return rawExpect{}, false
	}
	u := b[hl:tot]
	dport := int(binary.BigEndian.Uint16(u[2:]))
	if dport != bound.Port {
		return rawExpect{}, false
	}
	if bound.IP != nil && !bound.IP.Equal(net.IP(b[16:20])) {
		return rawExpect{}, false
	}
	e := rawExpect{payload: append([]byte(nil), u[8:]...), src: net.UDPAddr{IP: net.IP(append([]byte(nil), b[12:16]...)), Port: int(binary.BigEndian.Uint16(u[0:]))}}
	if int(binary.BigEndian.Uint16(u[4:])) != len(u) {
		e.loose = true
	}
	return e, true
}

type rawRead struct {
	bufLen int
	seq    int
	n      int
	data   []byte
	src    net.Addr
	err    error
	// the link returned an injected error / reported "closed" to a read made during this call
	linkErr, linkClosed bool
}

type rawWrite struct {
	seq     int
	payload []byte
	dst     *net.UDPAddr
	frames  [][]byte
	dests   []net.Addr
	err     error
}

type rawState struct {
	s     *simrt.Sim
	tape  *simrt.Tape
	link  *Conn
	bound *net.UDPAddr

	expect    []rawExpect // in link-read order
	reads     []rawRead
	writes    []*rawWrite
	curWrite  map[int]*rawWrite // by writer task: WriteTo calls may run concurrently
	stopErr   error             // what the link reported when the reader stopped (nil: still running)
	linkReads int
	curBuf    int
}

var (
	siteRawMain   = simrt.HSite("raw.main")
	siteRawWriter = simrt.HSite("raw.writer")
)

func rawPayload(t *simrt.Tape, i int) []byte {
	n := []int{0, 1, 2, 3, 7, 8, 63, 64, 255, 256, 300, 301, 548, 1023, 1472, 1499, 1500}[t.Choose(17)]
	if t.Coin(1, 3) {
		n = t.Choose(1501)
	}
	b := make([]byte, n)
	switch t.Weighted(3, 2, 2, 1) {
	case 0:
		x := uint32(i)*2654435761 + 99
		for k := range b {
			x = x*1664525 + 1013904223
			b[k] = byte(x >> 24)
		}
	case 1:
		for k := range b {
			b[k] = 0xff
		}
	case 2:
		// all zero
	case 3:
		for k := range b {
			b[k] = 0xff
		}
		if n > 2 {
			b[t.Choose(n)] = 0xfe
			b[t.Choose(n)] = 0x00
		}
	}
	return b
}

func rawScenario() *Scenario {
	return &Scenario{Name: "c18", Property: "C18", Run: func(s *simrt.Sim, tier string) func(simrt.RunResult) []simrt.Violation {
		t := s.Tape()
		st := &rawState{s: s, tape: t}
		s.EnableHB()
		s.Probe("policy-" + pickPolicy(s))
		st.start()
		return func(res simrt.RunResult) []simrt.Violation {
			v := &vio{}
			st.oracle(v)
			return v.list
		}
	}}
}

func (st *rawState) start() {
	s, t := st.s, st.tape
	boundPort := []int{68, 68, 67, 546, 40000}[t.Choose(5)]
	st.bound = &net.UDPAddr{Port: boundPort}
	if t.Coin(1, 2) {
		st.bound.IP = net.IPv4(10, 0, byte(t.Choose(2)), byte(5+t.Choose(3)))
	}
	nframes := []int{0, 1, 2, 3, 5, 10, 20, 60}[t.Weighted(1, 3, 3, 3, 3, 3, 2, 1)]
	nwrites := []int{0, 1, 2, 5, 12}[t.Weighted(2, 3, 3, 2, 1)]
	stopKind := t.Weighted(3, 2, 2) // 0 close at end, 1 close at drawn point, 2 read error at drawn point
	s.GoTask("main", func() {
		st.link = NewConn(s, "link", &packet.Addr{})
		nt := NewNet(s)
		st.link.OnRead = func(d dgram, n int) {
			st.linkReads++
			// The reference NIC judges the frame as it was on the link, not as cut by the
			// connection's own link read: a connection that reads with too little room and
			// thereby loses a good frame is at fault, not the frame. (A frame whose payload
			// exceeds the buffer the reader offered is optional: see below.)
			b := d.b
			s.Ev("link.rx", -1, int64(n), d.tag, nil)
			if e, ok := nicAccept(b, st.bound); ok {
				if len(e.payload) > st.curBuf {
					e.bufLen = st.curBuf
					s.Probe("reader-buffer-smaller-than-payload")
				}
				st.expect = append(st.expect, e)
			}
		}
		st.link.OnWrite = func(b []byte, to net.Addr) {
			if w := st.curWrite[s.CurTask()]; w != nil {
				w.frames = append(w.frames, b)
				w.dests = append(w.dests, to)
			}
			s.Ev("link.tx", -1, int64(len(b)), fmt.Sprint(to), nil)
		}
		upc := nclient4.NewBroadcastUDPConn(st.link, st.bound)
		j := newJoiner(s, "rw")
		j.Go("reader", func() {
			for {
				size := []int{1500, 1500, 2048, 4096, 1536}[t.Choose(5)]
				if t.Coin(1, 8) {
					size = []int{1, 64, 300, 548, 1000, 1499}[t.Choose(6)] // smaller than some payloads
				}
				buf := make([]byte, size)
				st.curBuf = size
				for k := range buf {
					buf[k] = 0xcc
				}
				s.EnterSUT()
				e0, c0 := st.link.ErrReads, st.link.ClosedReads
				n, src, err := upc.ReadFrom(buf)
				s.LeaveSUT()
				// what the link did during this call decides what an error means, not the error's
				// identity: a connection may wrap what the link reports
				r := rawRead{n: n, src: src, err: err, bufLen: size, linkErr: st.link.ErrReads > e0, linkClosed: st.link.ClosedReads > c0}
				if err == nil && n >= 0 && n <= len(buf) {
					r.data = append([]byte(nil), buf[:n]...)
				}
				r.seq = s.Ev("read", -1, int64(n), fmt.Sprintf("src=%v err=%v", src, err), nil)
				st.reads = append(st.reads, r)
				if err != nil {
					if r.linkErr && !r.linkClosed {
						// a failed link read is reported once; the connection must go on working
						s.Probe("reader-continues-after-link-read-error")
						continue
					}
					st.stopErr = err
					return
				}
			}
		})
		nwriters := 1 + t.Weighted(3, 2) // two writers: WriteTo calls overlap (the link write is a scheduling point)
		st.curWrite = map[int]*rawWrite{}
		for wi := 0; wi < nwriters; wi++ {
			wi := wi
			j.Go(fmt.Sprintf("writer%d", wi), func() {
				for i := 0; i < nwrites; i++ {
					sleep(pick(t, 0, 0, ms(1), ms(2)), siteRawWriter)
					w := &rawWrite{payload: rawPayload(t, 100*wi+i)}
					w.dst = &net.UDPAddr{IP: net.IPv4(byte(1+t.Choose(254)), byte(t.Choose(256)), byte(t.Choose(256)), byte(t.Choose(256))), Port: t.Choose(65536)}
					if t.Coin(1, 3) {
						w.dst = &net.UDPAddr{IP: net.IPv4bcast, Port: 67}
					}
					st.writes = append(st.writes, w)
					st.curWrite[s.CurTask()] = w
					orig := append([]byte(nil), w.payload...)
					s.EnterSUT()
					_, err := upc.WriteTo(w.payload, w.dst)
					s.LeaveSUT()
					delete(st.curWrite, s.CurTask())
					w.err = err
					w.seq = s.Ev("write", wi, int64(len(w.payload)), fmt.Sprintf("dst=%v err=%v", w.dst, err), nil)
					if !bytes.Equal(orig, w.payload) {
						s.Violate("W-caller-buffer", "WriteTo modified the caller's payload buffer")
					}
				}
			})
		}
		if nwriters > 1 {
			s.Probe("two-concurrent-writers")
		}
		// frames from the link
		at := ms(0)
		stopAt := -1
		if stopKind != 0 {
			stopAt = t.Choose(nframes + 1)
		}
		for i := 0; i < nframes; i++ {
			at += pick(t, 0, 0, ms(1), ms(2))
			if i == stopAt {
				st.scheduleStop(nt, stopKind, at)
			}
			fr, tag := st.frame(i)
			nt.After(at, func() {
				s.Stimulus()
				st.link.Deliver(dgram{b: fr, from: &packet.Addr{HardwareAddr: net.HardwareAddr{2, 2, 2, 2, 2, 2}}, tag: tag})
			})
		}
		if stopAt == nframes && stopKind == 2 {
			st.scheduleStop(nt, 2, at+ms(1))
		}
		if stopKind != 1 || stopAt < 0 || stopAt == nframes {
			// the end of the run: close the link so that the reader stops
			st.scheduleStop(nt, 1, at+ms(5))
		}
		j.Wait()
		nt.Stop(true)
	})
}

func (st *rawState) scheduleStop(nt *Net, kind int, at time.Duration) {
	s := st.s
	nt.After(at, func() {
		s.Stimulus()
		if kind == 2 {
			s.Fault("read-error")
			s.Ev("fault.readerr", -1, 0, "", nil)
			st.link.Deliver(dgram{err: errInjectedRead})
			return
		}
		s.Ev("link.close", -1, 0, "", nil)
		st.link.Close()
	})
}

func (st *rawState) frame(i int) ([]byte, string) {
	t := st.tape
	s := st.s
	f := frameSpec{ihl: 5, proto: 17, version: 4, cutAt: -1}
	f.srcIP = [4]byte{10, 0, 0, byte(1 + t.Choose(5))}
	f.srcPort = uint16([]int{67, 67, 68, 4011, 65535}[t.Choose(5)])
	f.dstPort = uint16(st.bound.Port)
	if st.bound.IP != nil {
		copy(f.dstIP[:], st.bound.IP.To4())
		if t.Coin(1, 8) {
			// a bound address is set: a frame to the limited broadcast address (or the all-zero
			// one) on the bound port is not addressed to it
			f.dstIP = [][4]byte{{255, 255, 255, 255}, {0, 0, 0, 0}, {10, 0, 0, 255}}[t.Choose(3)]
			s.Fault("frame-broadcast-while-address-bound")
		}
	} else {
		f.dstIP = [4]byte{255, 255, 255, 255}
		if t.Coin(1, 3) {
			f.dstIP = [4]byte{10, 0, 0, 99}
		}
	}
	f.payload = rawPayload(t, 1000+i)
	if t.Coin(1, 3) {
		f.flagsFO = 0x4000 // don't-fragment, as most stacks send; still a whole datagram
		s.Fault("frame-df-flag")
	}
	tag := "valid"
	switch t.Weighted(8, 3, 3, 2, 2, 2, 2, 2, 2, 2, 1, 1, 1, 2, 2) {
	case 1:
		f.ihl = 6 + t.Choose(10)
		f.optStyle = t.Choose(5)
		tag = fmt.Sprintf("ip-options ihl=%d style=%d", f.ihl, f.optStyle)
		s.Fault("frame-ip-options")
	case 2:
		f.padding = 1 + t.Choose(46)
		tag = fmt.Sprintf("padding %d", f.padding)
		s.Fault("frame-padding")
	case 3:
		f.dstPort ^= uint16(1 + t.Choose(4))
		tag = "other-port"
		s.Fault("frame-other-port")
	case 4:
		f.dstIP = [4]byte{10, 9, 9, byte(t.Choose(250))}
		tag = "other-address"
		s.Fault("frame-other-address")
	case 5:
		f.totLenDelta = 1 + t.Choose(64)
		tag = "total-length-beyond-frame"
		s.Fault("frame-totlen-long")
	case 6:
		// total length leaves fewer than 8 bytes after the IP header; padded on the link or not
		short := t.Choose(8)
		f.payload = nil
		f.totLenDelta = -(8 - short)
		if t.Coin(2, 3) {
			f.padding = t.Choose(40)
		} else if t.Coin(1, 2) {
			f.cutAtTotLen = true // a consistent runt: the frame really ends inside the UDP header
			f.padding = -1
		}
		tag = fmt.Sprintf("ip-payload-%d-bytes", short)
		s.Fault("frame-short-ip-payload")
	case 7:
		f.version = []byte{6, 0, 5, 15}[t.Choose(4)]
		tag = "not-ipv4"
		s.Fault("frame-not-ipv4")
	case 8:
		f.proto = []byte{6, 1, 2, 47}[t.Choose(4)]
		tag = "not-udp"
		s.Fault("frame-not-udp")
	case 9:
		full := 20 + 8 + len(f.payload)
		f.cutAt = 1 + t.Choose(full-1) // zero-length link reads are not generated: their result is unspecified
		tag = fmt.Sprintf("truncated at %d", f.cutAt)
		s.Fault("frame-truncated")
	case 10:
		f.ihl = t.Choose(5)
		if len(f.payload) < 20 {
			f.payload = make([]byte, 20)
		}
		tag = fmt.Sprintf("bad ihl=%d", f.ihl)
		s.Fault("frame-bad-ihl")
		b := buildFrameRawIHL(f)
		return b, tag
	case 11:
		// total length shorter than the frame and cutting into the UDP payload
		if len(f.payload) > 0 {
			cut := 1 + t.Choose(len(f.payload))
			f.totLenDelta = -cut
			tag = fmt.Sprintf("total-length-short-by-%d", cut)
			s.Fault("frame-totlen-short")
		}
	case 12:
		// header length larger than total length
		f.ihl = 15
		f.payload = nil
		f.totLenDelta = -(20 + t.Choose(20))
		f.padding = 40
		tag = "ihl-beyond-total-length"
		s.Fault("frame-ihl-gt-totlen")
	case 14:
		// the UDP length field disagrees with the IP total length (0..7, shorter or longer than
		// the datagram): what ReadFrom makes of it is unspecified, that it survives it is not
		n := 8 + len(f.payload)
		f.udpLenField = 1 + []int{0, 1, 7, 8, n / 2, n - 1, n + 1, n + 100, 65535}[t.Choose(9)]
		tag = fmt.Sprintf("udp-length-field %d for %d", f.udpLenField-1, n)
		s.Fault("frame-udp-length-inconsistent")
	case 13:
		// a frame as the deprecated client4 builds it for its raw socket (MakeRawUDPPacket):
		// the second frame encoder of the library. It is judged structurally here and then
		// travels the link like any other peer's frame.
		src := net.UDPAddr{IP: net.IP(append([]byte(nil), f.srcIP[:]...)), Port: int(f.srcPort)}
		dst := net.UDPAddr{IP: net.IP(append([]byte(nil), f.dstIP[:]...)), Port: int(f.dstPort)}
		if t.Coin(1, 2) {
			src.IP = net.IPv4(f.srcIP[0], f.srcIP[1], f.srcIP[2], f.srcIP[3]) // 16-byte form
		}
		if t.Coin(1, 2) {
			dst.IP = net.IPv4(f.dstIP[0], f.dstIP[1], f.dstIP[2], f.dstIP[3])
		}
		orig := append([]byte(nil), f.payload...)
		b, err := client4.MakeRawUDPPacket(f.payload, dst, src)
		s.Fault("frame-from-client4-MakeRawUDPPacket")
		if err != nil {
			s.Violate("W-legacy-error", fmt.Sprintf("client4.MakeRawUDPPacket failed for a %d-byte payload %v -> %v: %v", len(orig), &src, &dst, err))
			return buildFrame(f), "valid"
		}
		if !bytes.Equal(orig, f.payload) {
			s.Violate("W-legacy-caller-buffer", "client4.MakeRawUDPPacket modified the caller's payload")
		}
		if msg := legacyFrameDefect(b, orig, f); msg != "" {
			s.Violate("W-legacy-frame", "client4.MakeRawUDPPacket: "+msg)
		}
		return append([]byte(nil), b...), "client4-frame"
	}
	// Shapes combine: IP options and link padding are orthogonal to most of the above (a
	// runt UDP header behind IP options, a foreign port on a padded frame, ...).
	if f.version == 4 && f.ihl == 5 && t.Coin(1, 4) {
		f.ihl = 6 + t.Choose(10)
		f.optStyle = t.Choose(5)
		tag += fmt.Sprintf(" +ip-options ihl=%d style=%d", f.ihl, f.optStyle)
		s.Fault("frame-ip-options-combined")
	}
	if f.padding == 0 && t.Coin(1, 5) {
		f.padding = 1 + t.Choose(46)
		tag += fmt.Sprintf(" +padding %d", f.padding)
		s.Fault("frame-padding-combined")
	}
	return buildFrame(f), tag
}

// legacyFrameDefect judges a frame built by client4.MakeRawUDPPacket for a raw
// IP_HDRINCL socket: everything the kernel does not fill in must be right (version,
// IHL 5, total and UDP lengths, protocol, addresses, ports, payload); the two
// checksums are either left zero (header: filled in by the kernel; UDP: "not
// computed", legal over IPv4) or must verify.
func legacyFrameDefect(b, payload []byte, f frameSpec) string {
	want := 28 + len(payload)
	if len(b) != want {
		return fmt.Sprintf("frame is %d bytes, want %d (20 + 8 + %d)", len(b), want, len(payload))
	}
	if b[0] != 0x45 {
		return fmt.Sprintf("version/IHL byte %#02x, want 0x45", b[0])
	}
	if tl := int(binary.BigEndian.Uint16(b[2:])); tl != want {
		return fmt.Sprintf("IP total length %d, want %d", tl, want)
	}
	if binary.BigEndian.Uint16(b[6:])&0x3fff != 0 {
		return "fragment offset / more-fragments set"
	}
	if b[8] == 0 {
		return "TTL 0"
	}
	if b[9] != 17 {
		return fmt.Sprintf("protocol %d, want 17", b[9])
	}
	if binary.BigEndian.Uint16(b[10:]) != 0 && csum1071(b[:20]) != 0xffff {
		return "IPv4 header checksum neither zero nor verifying"
	}
	if !bytes.Equal(b[12:16], f.srcIP[:]) || !bytes.Equal(b[16:20], f.dstIP[:]) {
		return fmt.Sprintf("addresses %v -> %v, want %v -> %v", net.IP(b[12:16]), net.IP(b[16:20]), net.IP(f.srcIP[:]), net.IP(f.dstIP[:]))
	}
	u := b[20:]
	if sp, dp := binary.BigEndian.Uint16(u[0:]), binary.BigEndian.Uint16(u[2:]); sp != f.srcPort || dp != f.dstPort {
		return fmt.Sprintf("ports %d->%d, want %d->%d", sp, dp, f.srcPort, f.dstPort)
	}
	if ul := int(binary.BigEndian.Uint16(u[4:])); ul != 8+len(payload) {
		return fmt.Sprintf("UDP length %d, want %d", ul, 8+len(payload))
	}
	if !bytes.Equal(u[8:], payload) {
		return "payload changed"
	}
	if binary.BigEndian.Uint16(u[6:]) != 0 {
		pseudo := make([]byte, 12)
		copy(pseudo[0:4], b[12:16])
		copy(pseudo[4:8], b[16:20])
		pseudo[9] = 17
		binary.BigEndian.PutUint16(pseudo[10:], uint16(len(u)))
		if csum1071(pseudo, u) != 0xffff {
			return "UDP checksum neither zero nor verifying"
		}
	}
	return ""
}

// buildFrameRawIHL writes an IHL below 5 into an otherwise ordinary 20-byte header.
func buildFrameRawIHL(f frameSpec) []byte {
	ihl := f.ihl
	f.ihl = 5
	b := buildFrame(f)
	b[0] = 4<<4 | byte(ihl)
	return b
}

func (st *rawState) oracle(v *vio) {
	st.s.Probes["frames-accepted-by-reference"] += len(st.expect)
	st.s.Probes["link-reads"] += st.linkReads
	st.s.Probes["writes"] += len(st.writes)
	// ---- write side: every WriteTo leaves as exactly one valid frame
	for i, w := range st.writes {
		if w.err != nil {
			if len(w.frames) != 0 {
				v.add("W-frames", "write %d failed (%v) but emitted %d frame(s)", i, w.err, len(w.frames))
			}
			continue
		}
		if len(w.frames) != 1 {
			v.add("W-frames", "write %d of %d bytes emitted %d frames, want exactly 1", i, len(w.payload), len(w.frames))
			continue
		}
		b := w.frames[0]
		pa, ok := w.dests[0].(*packet.Addr)
		if !ok || !bytes.Equal(pa.HardwareAddr, net.HardwareAddr{255, 255, 255, 255, 255, 255}) {
			// the statement lists what the IPv4+UDP frame must look like; where on the link it is
			// sent is not among it (a connection may learn to address the server's MAC)
			st.s.Probe("frame-not-sent-to-the-broadcast-MAC (not judged)")
		}
		want := 28 + len(w.payload)
		if len(b) < want {
			v.add("W-size", "write %d: frame is %d bytes, too short for 20 + 8 + %d", i, len(b), len(w.payload))
			continue
		}
		if len(b) > want {
			// Bytes after the IP datagram are link-layer padding (a sender may pad runt frames to
			// the Ethernet minimum): the statement fixes the IP total length, which bounds the
			// datagram, not the length of what is handed to the link. The datagram is judged.
			st.s.Probe("written-frame-carries-link-padding")
			b = b[:want]
		}
		if b[0] != 0x45 {
			v.add("W-verihl", "write %d: version/IHL byte %#02x, want 0x45", i, b[0])
		}
		if tl := int(binary.BigEndian.Uint16(b[2:])); tl != want {
			v.add("W-totlen", "write %d: IP total length %d, want %d", i, tl, want)
		}
		if b[9] != 17 {
			v.add("W-proto", "write %d: protocol %d, want 17", i, b[9])
		}
		if binary.BigEndian.Uint16(b[6:])&0x3fff != 0 {
			v.add("W-frag", "write %d: fragment offset / more-fragments set", i)
		}
		if c := csum1071(b[:20]); c != 0xffff {
			v.add("W-ipcsum", "write %d: IPv4 header checksum does not verify (sum %#04x)", i, c)
		}
		srcWant := net.IPv4zero.To4()
		if st.bound.IP != nil {
			srcWant = st.bound.IP.To4()
		}
		if !bytes.Equal(b[12:16], srcWant) {
			v.add("W-src", "write %d: source address %v, want %v", i, net.IP(b[12:16]), net.IP(srcWant))
		}
		if !bytes.Equal(b[16:20], w.dst.IP.To4()) {
			v.add("W-dst", "write %d: destination address %v, want %v", i, net.IP(b[16:20]), w.dst.IP)
		}
		u := b[20:]
		if sp, dp := int(binary.BigEndian.Uint16(u[0:])), int(binary.BigEndian.Uint16(u[2:])); sp != st.bound.Port || dp != w.dst.Port {
			v.add("W-ports", "write %d: ports %d->%d, want %d->%d", i, sp, dp, st.bound.Port, w.dst.Port)
		}
		if ul := int(binary.BigEndian.Uint16(u[4:])); ul != 8+len(w.payload) {
			v.add("W-udplen", "write %d: UDP length %d, want %d", i, ul, 8+len(w.payload))
		}
		if !bytes.Equal(u[8:], w.payload) {
			v.add("W-payload", "write %d: payload changed on the wire", i)
		}
		pseudo := make([]byte, 12)
		copy(pseudo[0:4], b[12:16])
		copy(pseudo[4:8], b[16:20])
		pseudo[9] = 17
		binary.BigEndian.PutUint16(pseudo[10:], uint16(len(u)))
		field := binary.BigEndian.Uint16(u[6:])
		sum := csum1071(pseudo, u)
		if field == 0 {
			// "no checksum": tolerated only when the true checksum is itself zero
			if csum1071(pseudo, u) != 0xffff && csum1071(pseudo, u) != 0 {
				v.add("W-udpcsum", "write %d: UDP checksum field is 0 (not computed) for a %d-byte payload", i, len(w.payload))
			}
		} else if sum != 0xffff {
			v.add("W-udpcsum", "write %d: UDP checksum does not verify under RFC 768/1071 (sum %#04x, %d-byte payload)", i, sum, len(w.payload))
		}
	}
	// ---- read side: results equal, in order, the accepted frames. A frame whose
	// payload did not fit the reader's buffer may be returned cut to the buffer or skipped.
	if st.readsAlign() {
		goto errors // some assignment of results to frames explains everything read
	}
	{
		ok := 0
		nret := 0
		for _, r := range st.reads {
			if r.err != nil {
				continue
			}
			nret++
			if r.n < 0 || r.n > r.bufLen {
				v.add("R-count", "ReadFrom returned n=%d for a %d-byte buffer", r.n, r.bufLen)
				continue
			}
			matched := false
			for ok < len(st.expect) {
				e := st.expect[ok]
				ok++
				if e.loose {
					ua, isUDP := r.src.(*net.UDPAddr)
					if isUDP && ua.IP.Equal(e.src.IP) && ua.Port == e.src.Port && r.n <= len(e.payload) && bytes.Equal(r.data, e.payload[:r.n]) {
						matched = true
						break
					}
					continue
				}
				if e.bufLen > 0 {
					ua, isUDP := r.src.(*net.UDPAddr)
					if r.n == e.bufLen && bytes.Equal(r.data, e.payload[:e.bufLen]) && isUDP && ua.IP.Equal(e.src.IP) && ua.Port == e.src.Port {
						matched = true
						break
					}
					continue // skipped: allowed for a frame that did not fit
				}
				matched = true
				if r.n != len(e.payload) || !bytes.Equal(r.data, e.payload) {
					v.add("R-payload", "read %d: got %d bytes, want the %d-byte UDP payload bounded by the IP total length (padding or header bytes returned, or payload cut)", nret-1, r.n, len(e.payload))
				}
				ua, isUDP := r.src.(*net.UDPAddr)
				if !isUDP || !ua.IP.Equal(e.src.IP) || ua.Port != e.src.Port {
					v.add("R-source", "read %d: source %v, want %v", nret-1, r.src, &e.src)
				}
				break
			}
			if !matched {
				v.add("R-spurious", "ReadFrom returned %d bytes from %v although no (further) well-formed frame for %v had been read from the link", r.n, r.src, st.bound)
			}
		}
		missed := 0
		for _, e := range st.expect[ok:] {
			if e.bufLen == 0 && !e.loose {
				missed++
			}
		}
		if missed > 0 {
			v.add("R-missed", "%d well-formed frame(s) addressed to %v were read from the link but never returned by ReadFrom (%d returned)", missed, st.bound, nret)
		}
	}
errors:
	// an underlying read error or close is returned as such, once each
	injected := 0
	for _, r := range st.reads {
		if r.err == nil {
			continue
		}
		if r.linkErr && !r.linkClosed {
			injected++
		} else if !r.linkClosed {
			v.add("R-error", "ReadFrom failed with %v which is neither the link's read error nor its close error", r.err)
		}
	}
	if want := st.s.Faults["read-error"]; injected != want && st.stopErr != nil {
		// every injected link error that was read before the close must surface exactly once
		if injected > want {
			v.add("R-error-repeated", "the link reported %d read error(s) but ReadFrom returned it %d times", want, injected)
		}
	}
}

// readsAlign decides whether the successful ReadFrom results can be explained by
// the accepted frames in order, where a frame that did not fit the reader's
// buffer may have been skipped or returned cut to the buffer. (Deciding this
// greedily is wrong: a cut frame and the next whole frame can look alike.)
func (st *rawState) readsAlign() bool {
	var rs []rawRead
	for _, r := range st.reads {
		if r.err == nil {
			if r.n < 0 || r.n > r.bufLen {
				return false
			}
			rs = append(rs, r)
		}
	}
	es := st.expect
	same := func(r rawRead, e rawExpect, want []byte) bool {
		ua, ok := r.src.(*net.UDPAddr)
		return ok && ua.IP.Equal(e.src.IP) && ua.Port == e.src.Port && r.n == len(want) && bytes.Equal(r.data, want)
	}
	// f[i][j]: reads i.. can be explained by frames j..
	f := make([][]bool, len(rs)+1)
	for i := range f {
		f[i] = make([]bool, len(es)+1)
	}
	for i := len(rs); i >= 0; i-- {
		for j := len(es); j >= 0; j-- {
			switch {
			case i == len(rs):
				f[i][j] = j == len(es) || ((es[j].bufLen > 0 || es[j].loose) && f[i][j+1])
			case j == len(es):
				f[i][j] = false
			case es[j].loose:
				ua, ok := rs[i].src.(*net.UDPAddr)
				pre := ok && ua.IP.Equal(es[j].src.IP) && ua.Port == es[j].src.Port && rs[i].n <= len(es[j].payload) && bytes.Equal(rs[i].data, es[j].payload[:rs[i].n])
				f[i][j] = f[i][j+1] || (pre && f[i+1][j+1])
			case es[j].bufLen > 0:
				f[i][j] = f[i][j+1] || (same(rs[i], es[j], es[j].payload[:es[j].bufLen]) && f[i+1][j+1])
			default:
				f[i][j] = same(rs[i], es[j], es[j].payload) && f[i+1][j+1]
			}
		}
	}
	return f[0][0]
}

func isClosedErr(err error) bool {
	for err != nil {
		if err == net.ErrClosed {
			return true
		}
		u, ok := err.(interface{ Unwrap() error })
		if !ok {
			return false
		}
		err = u.Unwrap()
	}
	return false
}

func init() { register(rawScenario()) }
