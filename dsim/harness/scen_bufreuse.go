//go:build go1.25

package zzsimharness

import (
	"bytes"
	"encoding/binary"
	"fmt"
	"net"
	"reflect"
	"sort"
	"strings"
	"time"

	"github.com/insomniacslk/dhcp/dhcpv4"
	"github.com/insomniacslk/dhcp/dhcpv6"
	simrt "github.com/insomniacslk/dhcp/zzsimrt"
)

// Scenario "bufreuse" (DESIGN.md §4.1): relay-style actors written the way a
// performance-minded user would write them – a small pool of reusable read
// buffers, worker tasks that use decoded messages later – so that the history
// of every buffer after decoding is decided by the schedule.

// ---------------------------------------------------------------- corpus (raw wire bytes, hand-encoded per RFC)

func be16(v int) []byte { return []byte{byte(v >> 8), byte(v)} }
func be32(v uint32) []byte {
	b := make([]byte, 4)
	binary.BigEndian.PutUint32(b, v)
	return b
}
func cat(parts ...[]byte) []byte {
	var out []byte
	for _, p := range parts {
		out = append(out, p...)
	}
	return out
}
func opt6(code int, payload ...[]byte) []byte {
	p := cat(payload...)
	return cat(be16(code), be16(len(p)), p)
}
func labels(names ...string) []byte {
	var out []byte
	for _, n := range names {
		for _, l := range strings.Split(n, ".") {
			out = append(out, byte(len(l)))
			out = append(out, l...)
		}
		out = append(out, 0)
	}
	return out
}
func ip6(s string) []byte { return []byte(net.ParseIP(s).To16()) }
func lv16(items ...string) []byte {
	var out []byte
	for _, it := range items {
		out = append(out, be16(len(it))...)
		out = append(out, it...)
	}
	return out
}

// v4Packet is a hand-encoded BOOTP/DHCP packet with many option kinds.
func v4Packet(variant int) []byte {
	b := make([]byte, 240)
	b[0], b[1], b[2], b[3] = 2, 1, 6, byte(variant)
	copy(b[4:8], []byte{0xde, 0xad, byte(variant), 0x01})
	binary.BigEndian.PutUint16(b[8:], uint16(variant))
	binary.BigEndian.PutUint16(b[10:], 0x8000)
	copy(b[12:], []byte{10, 1, 1, byte(variant)})
	copy(b[16:], []byte{10, 2, 2, byte(variant)})
	copy(b[20:], []byte{10, 3, 3, 3})
	copy(b[24:], []byte{10, 4, 4, 4})
	copy(b[28:], []byte{2, 0, 0xaa, 0xbb, 0xcc, byte(variant)})
	copy(b[44:], fmt.Sprintf("server-name-%d.example.org", variant))
	copy(b[108:], fmt.Sprintf("/boot/file-%d.efi", variant))
	if variant%5 == 3 {
		copy(b[44:108], bytes.Repeat([]byte{'s'}, 64))
		copy(b[108:236], bytes.Repeat([]byte{'f'}, 128))
	}
	copy(b[236:], []byte{99, 130, 83, 99})
	o := func(code int, v ...byte) { b = append(b, byte(code), byte(len(v))); b = append(b, v...) }
	o(53, byte(1+variant%8))
	o(1, 255, 255, 255, 0)
	o(3, 10, 0, 0, 1, 10, 0, 0, 2)
	o(6, 8, 8, 8, 8, 1, 1, 1, 1)
	o(12, []byte(fmt.Sprintf("host-%d", variant))...)
	o(15, []byte("example.org")...)
	o(50, 192, 168, 1, byte(variant))
	o(51, 0, 0, 14, 16)
	o(54, 10, 0, 0, 1)
	o(55, 1, 3, 6, 15, 119, 121)
	o(57, 5, 220)
	o(60, []byte("PXEClient:Arch:00007")...)
	o(61, 1, 2, 0, 0xaa, 0xbb, 0xcc, byte(variant))
	o(43, 1, 4, 'a', 'b', 'c', 'd', 2, 2, 9, 9)
	o(82, 1, 3, 'e', 't', 'h', 2, 4, 'r', 'm', 't', byte('0'+variant%10))
	o(93, 0, 7)
	o(94, 1, 3, 16)
	o(97, append([]byte{0}, bytes.Repeat([]byte{byte(variant)}, 16)...)...)
	o(119, labels("corp.example.org", "lab.example.net")...)
	o(121, 24, 10, 9, 8, 10, 0, 0, 254, 0, 10, 0, 0, 1)
	o(124, 0, 0, 0x01, 0x37, 3, 2, 'h', 'p')
	o(125, 0, 0, 0x0d, 0xe9, 5, 1, 3, 'x', 'y', 'z')
	o(66, []byte("tftp.example.org")...)
	o(67, []byte("pxelinux.0")...)
	switch variant % 4 {
	case 0:
		// a single instance of the maximum length, no continuation
		o(209, bytes.Repeat([]byte{byte(0x30 + variant)}, 255)...)
	case 2:
		o(209, bytes.Repeat([]byte{byte(0x30 + variant)}, 254)...)
		o(210) // zero-length option
	}
	if variant%2 == 1 {
		// a long option split over several instances (RFC 3396)
		long := bytes.Repeat([]byte{byte(0x40 + variant)}, 300)
		o(224, long[:255]...)
		o(224, long[255:]...)
	}
	if variant%7 == 5 {
		// the same code three times (RFC 3396 concatenation of three fragments)
		o(225, bytes.Repeat([]byte{0x61}, 255)...)
		o(225, bytes.Repeat([]byte{0x62}, 255)...)
		o(225, bytes.Repeat([]byte{0x63}, 17)...)
	}
	if variant%7 == 6 {
		b[2] = 16 // hardware address length 16: the whole chaddr field is significant
		copy(b[28:44], bytes.Repeat([]byte{0xa0 + byte(variant%16)}, 16))
	}
	b = append(b, 255)
	if variant%9 != 4 { // one variant in nine stays shorter than the customary 300 bytes
		for len(b) < 300 {
			b = append(b, 0)
		}
	}
	return b
}

func iaAddr(addr string, nested ...[]byte) []byte {
	return opt6(5, ip6(addr), be32(3600), be32(7200), cat(nested...))
}

func iaPrefix(prefix string, plen byte, nested ...[]byte) []byte {
	return opt6(26, be32(1800), be32(3600), []byte{plen}, ip6(prefix), cat(nested...))
}

func status6(code int, msg string) []byte { return opt6(13, be16(code), []byte(msg)) }

// v6Options returns every option kind the library parses, at top level and nested.
func v6Options(variant int) [][]byte {
	v := byte(variant)
	duids := [][]byte{
		cat(be16(1), be16(1), be32(0x2a000000|uint32(variant)), []byte{2, 0, 0, 0xaa, 0xbb, v}), // LLT
		cat(be16(2), be32(32473), []byte{9, 8, 7, 6, v}),                                        // EN
		cat(be16(3), be16(1), []byte{2, 0, 0, 0xcc, 0xdd, v}),                                   // LL
		cat(be16(4), bytes.Repeat([]byte{0x10 + v}, 16)),                                        // UUID
		cat(be16(0x00ff), []byte("opaque-duid-"), []byte{v}),                                    // a type the library keeps opaque
		cat(be16(1), be16(1), be32(0x2b000000|uint32(variant))),                                 // DUID-LLT with an empty link-layer address
	}
	v4inner := v4Packet(variant)
	return [][]byte{
		opt6(1, duids[variant%6]),
		opt6(2, duids[(variant+2)%6]),
		opt6(3, []byte{0xaa, 0xbb, 0, v}, be32(1000), be32(2000), iaAddr("2001:db8::10", status6(0, "ok"), opt6(65010, []byte("addr-private"))), iaAddr("2001:db8::11"), status6(2, "NoAddrsAvail"), opt6(65011, []byte("ia-private-"), []byte{v})),
		opt6(4, []byte{0xab, 0xcd, 0, v}, iaAddr("2001:db8:1::5"), status6(0, "fine")),
		opt6(25, []byte{0xcc, 0, 0, v}, be32(100), be32(200), iaPrefix("2001:db8:100::", 56, status6(0, "pd ok")), iaPrefix("2001:db8:200::", 60, opt6(65012, []byte("prefix-private"))), iaPrefix("::", 0), opt6(65013, []byte{v, v, v})),
		opt6(6, be16(23), be16(24), be16(56), be16(59)),
		opt6(7, []byte{v}),
		opt6(8, be16(100+variant)),
		status6(1, "UnspecFail: something went wrong"),
		opt6(14),
		opt6(15, lv16("class-one", "", "class-two-"+string(rune('a'+variant%26)))),
		opt6(16, be32(3561), lv16("vendor-class-data", "more")),
		opt6(17, be32(40808), cat(be16(1), be16(5), []byte("hello"), be16(2), be16(3), []byte{1, 2, v})),
		opt6(18, []byte("eth0/1/"+string(rune('0'+variant%10)))),
		opt6(23, ip6("2001:4860:4860::8888"), ip6("2001:4860:4860::8844")),
		opt6(24, labels("search.example.org", "lan", "corp.example.net")),
		opt6(32, be32(86400)),
		opt6(37, be32(3561), []byte("remote-id-"+string(rune('a'+variant%26)))),
		opt6(39, []byte{1}, labels([]string{"client.example.org", "localhost"}[variant%2])),
		opt6(56, cat(be16(1), be16(16), ip6("2001:db8::123")), cat(be16(2), be16(16), ip6("ff05::101")), cat(be16(3), be16(len(labels("ntp.example.org"))), labels("ntp.example.org")),
			cat(be16(3), be16(len(labels("timesrv"))), labels("timesrv")), cat(be16(9), be16(3), []byte{1, 2, v})), // + a one-label name and an unknown sub-option
		opt6(59, []byte("tftp://[2001:db8::1]/boot.efi")),
		opt6(60, lv16("root=/dev/sda1", "quiet")),
		opt6(61, be16(7), be16(9)),
		opt6(62, []byte{1, 3, 16}),
		opt6(79, be16(1), []byte{2, 0, 0, 1, 2, v}),
		opt6(87, v4inner),
		opt6(88, ip6("2001:db8:4::1"), ip6("2001:db8:4::2")),
		opt6(97, opt6(98, []byte{24, 48, 16, 0x80, 10, 9, 8, 0}, ip6("2001:db8:97::")), opt6(99, []byte{0x81, 0x20}, be16(1420))),
		opt6(135, be16(3547)),
		opt6(65001, []byte("generic option payload "+string(rune('a'+variant%26)))),
		opt6(65002), // zero-length unknown option
		// option types that normally live inside a container, here at the top level (the parser accepts them)
		iaAddr("2001:db8:5::5", status6(0, "top")),
		iaPrefix("2001:db8:26::", 48),
		opt6(98, []byte{16, 40, 8, 0x00, 10, 1, 0, 0}, ip6("2001:db8:98::")),
		opt6(99, []byte{0x01, 0x00}, be16(1280)),
		opt6(3, []byte{0xaa, 0xbb, 1, v}, be32(5), be32(6)),                              // a second IA_NA, without addresses
		opt6(17, be32(99999), cat(be16(65000), be16(0), be16(7), be16(2), []byte{v, v})), // vendor opts with an empty and an unknown sub-option
	}
}

func v6Message(variant int) []byte {
	types := []byte{1, 2, 3, 5, 7, 11}
	b := []byte{types[variant%len(types)], 0xab, 0xcd, byte(variant)}
	opts := v6Options(variant)
	// rotate so that every option is first / last in some variant
	k := variant % len(opts)
	for _, o := range append(append([][]byte{}, opts[k:]...), opts[:k]...) {
		b = append(b, o...)
	}
	return b
}

func v6Relay(variant int, depth int) []byte {
	inner := v6Message(variant)
	for d := 0; d < depth; d++ {
		typ := byte(12)
		if (variant+d)%3 == 0 {
			typ = 13
		}
		hdr := cat([]byte{typ, byte(d)}, ip6(fmt.Sprintf("2001:db8:ffff::%x", d+1)), ip6(fmt.Sprintf("fe80::%x", variant+1)))
		if (variant+d)%2 == 0 {
			inner = cat(hdr, opt6(18, []byte(fmt.Sprintf("relay-if-%d", d))), opt6(9, inner), opt6(37, be32(3561), []byte("rid")), opt6(135, be16(547+d)), opt6(79, be16(1), []byte{2, 1, 1, 1, 1, byte(d)}))
		} else {
			// the relay-message option first, other options after it
			inner = cat(hdr, opt6(9, inner), opt6(18, []byte(fmt.Sprintf("relay-if-%d", d))), opt6(65003, []byte{byte(d)}), iaAddr("2001:db8:9::9"), opt6(24, labels("relay")))
		}
	}
	return inner
}

type corpusItem struct {
	v6   bool
	wire []byte
	name string
}

// v6Shuffled is a DHCPv6 message with a drawn subset of the corpus options in a
// drawn order, some of them twice: every option gets to be first, last, alone
// and repeated.
func v6Shuffled(variant int, t *simrt.Tape) []byte {
	opts := v6Options(variant)
	b := []byte{[]byte{1, 2, 3, 7}[variant%4], 0xab, 0xce, byte(variant)}
	n := 1 + t.Choose(len(opts))
	for _, i := range t.Perm(len(opts))[:n] {
		b = append(b, opts[i]...)
		if t.Coin(1, 10) {
			b = append(b, opts[i]...)
		}
	}
	return b
}

func corpus(t *simrt.Tape) corpusItem {
	variant := t.Choose(40)
	if t.Coin(1, 4) {
		return corpusItem{v6: true, wire: v6Shuffled(variant, t), name: fmt.Sprintf("v6shuffled#%d", variant)}
	}
	switch t.Weighted(3, 4, 3) {
	case 0:
		return corpusItem{v6: false, wire: v4Packet(variant), name: fmt.Sprintf("v4#%d", variant)}
	case 1:
		return corpusItem{v6: true, wire: v6Message(variant), name: fmt.Sprintf("v6#%d", variant)}
	}
	d := 1 + t.Choose(3)
	return corpusItem{v6: true, wire: v6Relay(variant, d), name: fmt.Sprintf("v6relay#%d/%d", variant, d)}
}

// ---------------------------------------------------------------- snapshots

type snapshot struct {
	enc      []byte
	summary  string
	obs      string // everything reachable through exported fields, plus the results of zero-argument accessors
	internal string // the whole object graph including unexported fields (diagnostic only)
}

type anyMsg interface {
	ToBytes() []byte
	Summary() string
}

// decodeVia is decodeAny through a chosen public entry point: 0 = FromBytes; 1 = the
// type-specific decoder a caller that has looked at the first byte would use
// (dhcpv6.MessageFromBytes as nclient6 does, dhcpv6.RelayMessageFromBytes).
func decodeVia(v6 bool, b []byte, entry int) (anyMsg, error) {
	if v6 && entry == 1 && len(b) > 0 {
		if b[0] == byte(dhcpv6.MessageTypeRelayForward) || b[0] == byte(dhcpv6.MessageTypeRelayReply) {
			m, err := dhcpv6.RelayMessageFromBytes(b)
			if err != nil {
				return nil, err
			}
			return m, nil
		}
		m, err := dhcpv6.MessageFromBytes(b)
		if err != nil {
			return nil, err
		}
		return m, nil
	}
	return decodeAny(v6, b)
}

func decodeAny(v6 bool, b []byte) (anyMsg, error) {
	if v6 {
		m, err := dhcpv6.FromBytes(b)
		if err != nil {
			return nil, err
		}
		return m, nil
	}
	m, err := dhcpv4.FromBytes(b)
	if err != nil {
		return nil, err
	}
	return m, nil
}

func snap(m anyMsg, types map[string]int) snapshot {
	var obs, in strings.Builder
	deepString(&obs, reflect.ValueOf(m), 0, types, true)
	deepString(&in, reflect.ValueOf(m), 0, nil, false)
	return snapshot{enc: m.ToBytes(), summary: m.Summary(), obs: obs.String(), internal: in.String()}
}

// diff reports observable differences; internalOnly is set when nothing a
// caller can observe differs but an unexported field does.
func (a snapshot) diff(b snapshot) (d string, internalOnly bool) {
	var ds []string
	if !bytes.Equal(a.enc, b.enc) {
		ds = append(ds, fmt.Sprintf("re-encoding (%d vs %d bytes, first difference at %d)", len(a.enc), len(b.enc), firstDiff(a.enc, b.enc)))
	}
	if a.summary != b.summary {
		ds = append(ds, "printed form (Summary)")
	}
	if a.obs != b.obs {
		ds = append(ds, "fields / accessor results: "+strDiff(a.obs, b.obs))
	}
	if len(ds) == 0 && a.internal != b.internal {
		return "", true
	}
	return strings.Join(ds, "; "), false
}

func firstDiff(a, b []byte) int {
	for i := 0; i < len(a) && i < len(b); i++ {
		if a[i] != b[i] {
			return i
		}
	}
	if len(a) < len(b) {
		return len(a)
	}
	return len(b)
}

func strDiff(a, b string) string {
	i := 0
	for i < len(a) && i < len(b) && a[i] == b[i] {
		i++
	}
	lo := i - 60
	if lo < 0 {
		lo = 0
	}
	hi := func(s string) int {
		if i+40 < len(s) {
			return i + 40
		}
		return len(s)
	}
	return fmt.Sprintf("…%s | want …%s", b[lo:hi(b)], a[lo:hi(a)])
}

var skipAccessor = map[string]bool{"ToBytes": true, "Summary": true, "LongString": true}

// deepString prints an object graph by value (no addresses), so that any byte
// the message still shares with a foreign buffer shows up when it changes. With
// observable set, unexported fields are skipped and the results of exported
// zero-argument methods are included.
func deepString(sb *strings.Builder, v reflect.Value, depth int, types map[string]int, observable bool) {
	if depth > 10 {
		sb.WriteString("<deep>")
		return
	}
	switch v.Kind() {
	case reflect.Invalid:
		sb.WriteString("nil")
	case reflect.Ptr, reflect.Interface:
		if v.IsNil() {
			sb.WriteString("nil")
			return
		}
		if types != nil && v.Kind() == reflect.Ptr {
			types[v.Type().String()]++
		}
		if observable && v.Kind() == reflect.Ptr && v.CanInterface() && depth < 6 {
			accessors(sb, v, depth, observable)
		}
		deepString(sb, v.Elem(), depth+1, types, observable)
	case reflect.Struct:
		sb.WriteString(v.Type().Name())
		sb.WriteString("{")
		for i := 0; i < v.NumField(); i++ {
			f := v.Type().Field(i)
			if observable && f.PkgPath != "" {
				continue
			}
			sb.WriteString(f.Name)
			sb.WriteString(":")
			deepString(sb, v.Field(i), depth+1, types, observable)
			sb.WriteString(" ")
		}
		sb.WriteString("}")
	case reflect.Slice, reflect.Array:
		if v.Kind() == reflect.Slice && v.IsNil() {
			sb.WriteString("nil")
			return
		}
		if v.Type().Elem().Kind() == reflect.Uint8 {
			fmt.Fprintf(sb, "%d:", v.Len())
			for i := 0; i < v.Len(); i++ {
				fmt.Fprintf(sb, "%02x", v.Index(i).Uint())
			}
			return
		}
		sb.WriteString("[")
		for i := 0; i < v.Len(); i++ {
			deepString(sb, v.Index(i), depth+1, types, observable)
			sb.WriteString(",")
		}
		sb.WriteString("]")
	case reflect.Map:
		keys := v.MapKeys()
		sort.Slice(keys, func(i, j int) bool { return fmt.Sprint(keys[i]) < fmt.Sprint(keys[j]) })
		sb.WriteString("map[")
		for _, k := range keys {
			deepString(sb, k, depth+1, types, observable)
			sb.WriteString("=")
			deepString(sb, v.MapIndex(k), depth+1, types, observable)
			sb.WriteString(",")
		}
		sb.WriteString("]")
	case reflect.String:
		fmt.Fprintf(sb, "%q", v.String())
	case reflect.Bool:
		fmt.Fprint(sb, v.Bool())
	case reflect.Int, reflect.Int8, reflect.Int16, reflect.Int32, reflect.Int64:
		fmt.Fprint(sb, v.Int())
	case reflect.Uint, reflect.Uint8, reflect.Uint16, reflect.Uint32, reflect.Uint64, reflect.Uintptr:
		fmt.Fprint(sb, v.Uint())
	case reflect.Float32, reflect.Float64:
		fmt.Fprint(sb, v.Float())
	default:
		sb.WriteString("<" + v.Kind().String() + ">")
	}
}

// accessors appends the results of the exported zero-argument methods of v.
func accessors(sb *strings.Builder, v reflect.Value, depth int, observable bool) {
	t := v.Type()
	for i := 0; i < t.NumMethod(); i++ {
		m := t.Method(i)
		mt := m.Type
		if mt.NumIn() != 1 || mt.NumOut() == 0 || skipAccessor[m.Name] {
			continue
		}
		sb.WriteString("." + m.Name + "()=")
		func() {
			defer func() {
				if r := recover(); r != nil {
					sb.WriteString("<panic>")
				}
			}()
			for _, out := range v.Method(i).Call(nil) {
				deepString(sb, out, depth+3, nil, observable)
				sb.WriteString(";")
			}
		}()
	}
}

// ---------------------------------------------------------------- scenario

type heldMsg struct {
	idx    int
	name   string
	m      anyMsg
	ref    snapshot
	bufIdx int
	readNo int // how many reads had gone into its buffer when it was decoded
}

type bufState struct {
	s    *simrt.Sim
	tape *simrt.Tape
	conn *Conn
	net  *Net

	pool           [][]byte
	reads          []int // per buffer: number of reads so far
	queue          []*heldMsg
	qGate          []chan struct{}
	closed         bool
	checked        int
	types          map[string]int
	decodeFailures []string
	mutated        map[string]bool // shape-mutated wires: the decoder may legitimately refuse them
}

var (
	siteBufWorker = simrt.HSite("buf.worker")
	siteBufQueue  = simrt.HSite("buf.queue")
	siteBufReader = simrt.HSite("buf.reader")
)

func bufScenario() *Scenario {
	return &Scenario{Name: "c08", Property: "C08", Run: func(s *simrt.Sim, tier string) func(simrt.RunResult) []simrt.Violation {
		t := s.Tape()
		st := &bufState{s: s, tape: t, types: map[string]int{}}
		s.AllowStall = t.Coin(1, 4)
		if s.AllowStall {
			s.StallPermille = 15
		}
		s.Probe("policy-" + pickPolicy(s))
		st.start()
		return func(res simrt.RunResult) []simrt.Violation {
			v := &vio{}
			for _, f := range st.decodeFailures {
				v.add("harness", "corpus item does not decode: %s", f)
			}
			for k, n := range st.types {
				s.Probes["type "+k] += n
			}
			return v.list
		}
	}}
}

func scribble(b []byte, pattern int, seed int) {
	switch pattern {
	case 0:
		for i := range b {
			b[i] = 0
		}
	case 1:
		for i := range b {
			b[i] = 0xff
		}
	case 2:
		// small lengths: every length field reads as 1
		for i := range b {
			b[i] = 1
		}
	case 3:
		x := uint32(seed)*2654435761 + 7
		for i := range b {
			x = x*1664525 + 1013904223
			b[i] = byte(x >> 24)
		}
	}
}

func (st *bufState) take() *heldMsg {
	simrt.Yield(siteBufQueue)
	for len(st.queue) == 0 {
		if st.closed {
			return nil
		}
		w := make(chan struct{})
		st.qGate = append(st.qGate, w)
		<-w
		simrt.Woke(siteBufQueue)
	}
	h := st.queue[0]
	st.queue = st.queue[1:]
	return h
}

func (st *bufState) wakeWorkers() {
	for _, w := range st.qGate {
		close(w)
	}
	st.qGate = nil
}

func (st *bufState) start() {
	s, t := st.s, st.tape
	npool := 1 + t.Weighted(4, 2, 1)
	nworkers := 1 + t.Weighted(3, 2, 1)
	ndgrams := []int{1, 2, 3, 5, 8, 15, 40}[t.Weighted(2, 3, 3, 3, 2, 1, 1)]
	explicit := t.Weighted(3, 1, 1, 1, 1) // 0: only the next packet overwrites; else a scribble pattern right after hand-off
	s.GoTask("main", func() {
		st.conn = NewConn(s, "rconn", &net.UDPAddr{Port: 547})
		st.net = NewNet(s)
		for i := 0; i < npool; i++ {
			st.pool = append(st.pool, make([]byte, 8192))
			st.reads = append(st.reads, 0)
		}
		j := newJoiner(s, "actors")
		j.Go("reader", func() {
			for k := 0; ; k++ {
				bi := k % npool
				buf := st.pool[bi]
				n, from, err := st.conn.ReadFrom(buf)
				if err != nil {
					st.closed = true
					st.wakeWorkers()
					return
				}
				st.reads[bi]++
				v6 := true // the family is told by the sender's port, as on a real relay with two sockets
				if ua, ok := from.(*net.UDPAddr); ok && ua.Port == 68 {
					v6 = false
				}
				private := append([]byte(nil), buf[:n]...)
				entry := t.Choose(2) // which public decode function this receive path uses
				refMsg, err := decodeVia(v6, private, entry)
				if err != nil {
					if st.mutated[string(private)] {
						s.Probe("shape-mutated-input-refused-by-decoder")
						continue
					}
					st.decodeFailures = append(st.decodeFailures, fmt.Sprintf("read %d (%d bytes, v6=%v): %v", k, n, v6, err))
					continue
				}
				if st.mutated[string(private)] {
					s.Probe("shape-mutated-input-accepted-by-decoder")
				}
				m, err := decodeVia(v6, buf[:n], entry) // the decode under test: from the shared, reusable buffer
				if err != nil {
					st.decodeFailures = append(st.decodeFailures, "shared-buffer decode: "+err.Error())
					continue
				}
				h := &heldMsg{idx: k, m: m, ref: snap(refMsg, st.types), bufIdx: bi, readNo: st.reads[bi]}
				s.Ev("decode", k, int64(n), fmt.Sprintf("buf=%d v6=%v", bi, v6), nil)
				if explicit != 0 {
					scribble(buf, explicit-1, k)
					s.Fault(fmt.Sprintf("overwrite-pattern-%d", explicit-1))
					st.reads[bi]++
				}
				st.queue = append(st.queue, h)
				st.wakeWorkers()
				simrt.Yield(siteBufReader)
			}
		})
		for w := 0; w < nworkers; w++ {
			w := w
			j.Go(fmt.Sprintf("worker%d", w), func() {
				for {
					h := st.take()
					if h == nil {
						return
					}
					sleep(pick(t, 0, 0, ms(1), ms(3), ms(10)), siteBufWorker)
					st.use(h, w)
				}
			})
		}
		at := time.Duration(0)
		for i := 0; i < ndgrams; i++ {
			at += pick(t, 0, 0, ms(1), ms(2), ms(5))
			it := corpus(t)
			if t.Coin(1, 3) {
				// a shape nobody listed: mutate the TLV structure of the corpus item
				var w string
				if it.v6 {
					it.wire, w = mutateV6Top(it.wire, t)
				} else {
					it.wire, w = mutateV4(it.wire, t)
				}
				if len(it.wire) > 8000 {
					w = "" // would not fit the relay's 8 KiB pool buffers whole: keep the corpus item as it is
					it = corpus(t)
				}
				if w != "" {
					it.name += " " + w
					if st.mutated == nil {
						st.mutated = map[string]bool{}
					}
					st.mutated[string(it.wire)] = true
					s.Fault("shape-mutation")
				}
			}
			copies := 1
			if t.Coin(1, 8) {
				copies = 2
				s.Fault("duplicate")
			}
			for c := 0; c < copies; c++ {
				d := at + time.Duration(c)*pick(t, 0, ms(1), ms(4))
				wire := it.wire
				tag := it.name
				port := 546
				if !it.v6 {
					port = 68
				}
				st.net.After(d, func() {
					s.Stimulus()
					st.conn.Deliver(dgram{b: wire, from: &net.UDPAddr{IP: net.ParseIP("fe80::9"), Port: port}, tag: tag})
				})
			}
		}
		st.net.After(at+ms(20), func() {
			s.Stimulus()
			st.conn.Close()
		})
		j.Wait()
		st.net.Stop(true)
	})
}

// use is what a worker does with a held message some time after it was decoded.
func (st *bufState) use(h *heldMsg, w int) {
	s, t := st.s, st.tape
	overwrites := st.reads[h.bufIdx] - h.readNo
	if overwrites > 0 {
		s.Probe("used-after-source-buffer-overwritten")
	} else {
		s.Probe("used-before-overwrite")
	}
	st.checked++
	now := snap(h.m, nil)
	s.Ev("use", h.idx, int64(overwrites), "", nil)
	d, internalOnly := h.ref.diff(now)
	if internalOnly {
		s.Probe("internal-field-aliases-buffer-but-nothing-observable-changed")
	}
	if d != "" {
		s.Violate("D-alias", "message %d (decoded from reusable buffer %d, overwritten %d time(s) since): %s", h.idx, h.bufIdx, overwrites, d)
		return
	}
	// encode side: the caller may do what it likes with the bytes ToBytes returned,
	// also while it holds the result of another encoding
	out0 := h.m.ToBytes()
	out1 := h.m.ToBytes()
	pat := t.Choose(4)
	scribble(out1, pat, h.idx)
	s.Fault(fmt.Sprintf("scribble-output-%d", pat))
	if !bytes.Equal(out0, h.ref.enc) {
		s.Violate("E-output-shared", "message %d: two encodings share memory: modifying the bytes returned by one ToBytes call changed the bytes returned by another (first difference at %d)", h.idx, firstDiff(out0, h.ref.enc))
		return
	}
	out2 := h.m.ToBytes()
	if !bytes.Equal(out0, h.ref.enc) {
		s.Violate("E-output-shared", "message %d: a later ToBytes call rewrote the bytes an earlier call had returned", h.idx)
		return
	}
	// the spare capacity of a returned slice belongs to the caller as well
	if spare := out0[len(out0):cap(out0)]; len(spare) > 0 {
		scribble(spare, 1, h.idx)
		if !bytes.Equal(out2, h.ref.enc) || !bytes.Equal(out0, h.ref.enc) {
			s.Violate("E-output-shared", "message %d: writing into the spare capacity of one ToBytes result changed another result", h.idx)
			return
		}
		if out3 := h.m.ToBytes(); !bytes.Equal(out3, h.ref.enc) || !bytes.Equal(out2, h.ref.enc) {
			s.Violate("E-output-shared", "message %d: after the caller used the spare capacity of a ToBytes result, encodings differ", h.idx)
			return
		}
	}
	if !bytes.Equal(out2, h.ref.enc) {
		s.Violate("E-output-shared", "message %d: after the caller modified the bytes returned by ToBytes, the next encoding differs (first difference at %d)", h.idx, firstDiff(out2, h.ref.enc))
		return
	}
	// reuse the returned slice as scratch space (append into its capacity)
	scratch := append(out2[:0], bytes.Repeat([]byte{0x5a}, len(out2))...)
	_ = append(scratch, 1, 2, 3, 4, 5, 6, 7, 8)
	if d, _ := h.ref.diff(snap(h.m, nil)); d != "" {
		s.Violate("E-output-retained", "message %d: reusing the slice returned by ToBytes changed the message: %s", h.idx, d)
	}
}

func init() { register(bufScenario()) }

// corpusCheck decodes every corpus variant once (./run.sh selftest corpus) and
// reports the ones the library does not accept.
func corpusCheck() []string {
	var bad []string
	try := func(name string, v6 bool, wire []byte) {
		if _, err := decodeAny(v6, append([]byte(nil), wire...)); err != nil {
			bad = append(bad, fmt.Sprintf("%s (%d bytes): %v", name, len(wire), err))
		}
	}
	for v := 0; v < 40; v++ {
		try(fmt.Sprintf("v4#%d", v), false, v4Packet(v))
		try(fmt.Sprintf("v6#%d", v), true, v6Message(v))
		for d := 1; d <= 3; d++ {
			try(fmt.Sprintf("v6relay#%d/%d", v, d), true, v6Relay(v, d))
		}
		for i, o := range v6Options(v) {
			try(fmt.Sprintf("v6#%d option %d", v, i), true, cat([]byte{1, 0, 0, 1}, o))
		}
	}
	return bad
}
