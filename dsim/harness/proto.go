//go:build go1.25

package zzsimharness

import (
	"bytes"
	"context"
	"encoding/binary"
	"errors"
	"net"
	"time"

	"github.com/insomniacslk/dhcp/dhcpv4"
	"github.com/insomniacslk/dhcp/dhcpv4/nclient4"
	"github.com/insomniacslk/dhcp/dhcpv6"
	"github.com/insomniacslk/dhcp/dhcpv6/nclient6"
)

// pktInfo is what the harness knows about one datagram / message.
type pktInfo struct {
	Decodes  bool   // the library decoder accepts it
	Eligible bool   // decodes and passes the client's documented filters (v4: BOOTREPLY, own hardware address)
	Xid      uint32 // transaction id (v6: 24 bit)
	Typ      int    // message type
	Serial   uint32 // harness serial (0: none)
}

type replyKind int

const (
	rkAccept    replyKind = iota // acceptable type, right id
	rkReject                     // same id, type the by-type matcher rejects
	rkOtherID                    // acceptable type, another id (altXid)
	rkWrongHW                    // v4: other hardware address (v6: falls back to rkOtherID)
	rkRequestOp                  // v4: BOOTREQUEST opcode (v6: relay message type, undecodable as a Message)
	rkTruncated                  // cut short
	rkGarbage                    // random-looking bytes
	rkEmpty                      // zero-length datagram
	rkOversize                   // acceptable reply, larger than the client's 1500-byte read buffer
	nReplyKinds
)

func (k replyKind) String() string {
	return [...]string{"accept", "reject", "otherid", "wronghw", "requestop", "truncated", "garbage", "empty", "oversize"}[k]
}

// proto abstracts over nclient4 / nclient6 for the client-core scenarios.
type proto interface {
	Name() string
	XidBits() int
	NewClient(conn net.PacketConn, T time.Duration, tries int, bufcap int, logf func(string), variant int) (clientHandle, error)
	BuildRequest(xid uint32, serial uint32) (req interface{}, wire []byte)
	BuildReply(reqWire []byte, kind replyKind, serial uint32, altXid uint32) []byte
	Inspect(wire []byte) pktInfo
	MsgInfo(m interface{}) (info pktInfo, isNil bool)
	MsgBytes(m interface{}) []byte
	Redecode(wire []byte) []byte // canonical re-encoding of the library decoding of wire (nil if it does not decode)
	IsInUse(err error) bool
	IsNoResponse(err error) bool
	AcceptTyp() int
	Dest() *net.UDPAddr
	HasBufferCap() bool
}

type clientHandle interface {
	SendAndRead(ctx context.Context, dest *net.UDPAddr, req interface{}, match func(m interface{}) bool) (interface{}, error)
	Close() error
}

var clientHW = net.HardwareAddr{0x02, 0x00, 0x00, 0xaa, 0xbb, 0x01}
var otherHW = net.HardwareAddr{0x02, 0x00, 0x00, 0xaa, 0xbb, 0x02}

const serialOpt4 = 224
const serialOpt6 = 65001

func serialBytes(s uint32) []byte {
	b := make([]byte, 4)
	binary.BigEndian.PutUint32(b, s)
	return b
}

// ---------------------------------------------------------------- DHCPv4

type v4proto struct{}

type v4client struct{ c *nclient4.Client }

type v4logger struct{ logf func(string) }

func (l v4logger) PrintMessage(prefix string, m *dhcpv4.DHCPv4) {
	if m == nil {
		l.logf("msg " + prefix + ": <nil>")
		return
	}
	l.logf("msg " + prefix + ": " + m.TransactionID.String())
}
func (l v4logger) Printf(format string, v ...interface{}) { l.logf("printf " + format) }

func (v4proto) Name() string       { return "v4" }
func (v4proto) XidBits() int       { return 32 }
func (v4proto) AcceptTyp() int     { return int(dhcpv4.MessageTypeOffer) }
func (v4proto) Dest() *net.UDPAddr { return &net.UDPAddr{IP: net.IPv4(10, 9, 8, 7), Port: 6767} }
func (v4proto) HasBufferCap() bool { return nclient4.SimHasBufferCap }

func (v4proto) NewClient(conn net.PacketConn, T time.Duration, tries int, bufcap int, logf func(string), variant int) (clientHandle, error) {
	opts := []nclient4.ClientOpt{nclient4.WithTimeout(T), nclient4.WithRetry(tries)}
	if variant&1 != 0 {
		// a configured (unicast) server address: irrelevant to calls that name their destination
		opts = append(opts, nclient4.WithServerAddr(&net.UDPAddr{IP: net.IPv4(10, 9, 9, 9), Port: 67}))
	}
	if bufcap >= 0 {
		opts = append(opts, nclient4.SimWithBufferCap(bufcap))
	}
	if logf != nil {
		opts = append(opts, nclient4.WithLogger(v4logger{logf}))
	} else {
		// the library's own loggers: they print (and therefore read) every message sent and received
		switch (variant >> 1) & 3 {
		case 1:
			opts = append(opts, nclient4.WithSummaryLogger())
		case 2:
			opts = append(opts, nclient4.WithDebugLogger())
		}
	}
	c, err := nclient4.NewWithConn(conn, clientHW, opts...)
	if err != nil {
		return nil, err
	}
	return v4client{c}, nil
}

func (c v4client) SendAndRead(ctx context.Context, dest *net.UDPAddr, req interface{}, match func(m interface{}) bool) (interface{}, error) {
	var m nclient4.Matcher
	if match != nil {
		m = func(p *dhcpv4.DHCPv4) bool { return match(p) }
	}
	r, err := c.c.SendAndRead(ctx, dest, req.(*dhcpv4.DHCPv4), m)
	return r, err
}

func (c v4client) Close() error { return c.c.Close() }

func xid4(x uint32) dhcpv4.TransactionID {
	var t dhcpv4.TransactionID
	binary.BigEndian.PutUint32(t[:], x)
	return t
}

func (v4proto) BuildRequest(xid uint32, serial uint32) (interface{}, []byte) {
	mods := []dhcpv4.Modifier{dhcpv4.WithTransactionID(xid4(xid)),
		dhcpv4.WithGeneric(dhcpv4.GenericOptionCode(serialOpt4), serialBytes(serial))}
	if serial%2 == 0 {
		// request contents vary: a parameter request list out of order, a host name, seconds elapsed
		mods = append(mods, dhcpv4.WithRequestedOptions(dhcpv4.OptionNTPServers, dhcpv4.OptionBootfileName, dhcpv4.OptionDomainNameServer),
			dhcpv4.WithOption(dhcpv4.OptHostName("sim-host")))
	}
	p, err := dhcpv4.NewDiscovery(clientHW, mods...)
	if err != nil {
		panic(err)
	}
	if serial%4 == 0 {
		p.NumSeconds = 3
	}
	if serial%8 == 3 {
		// a request sent on behalf of another hardware address (a proxy, a test tool): replies are
		// still filtered by the address the client was created with
		p.ClientHWAddr = net.HardwareAddr{0x02, 0x00, 0x00, 0xaa, 0xbb, 0x77}
	}
	if k := (serial / 2) % 6; k > 0 {
		// not only DISCOVER: SendAndRead sends any message
		p.UpdateOption(dhcpv4.OptMessageType([]dhcpv4.MessageType{dhcpv4.MessageTypeDiscover, dhcpv4.MessageTypeRequest, dhcpv4.MessageTypeInform,
			dhcpv4.MessageTypeRequest, dhcpv4.MessageTypeDecline, dhcpv4.MessageTypeRelease}[k]))
	}
	return p, p.ToBytes()
}

func (v4proto) BuildReply(reqWire []byte, kind replyKind, serial uint32, altXid uint32) []byte {
	req, err := dhcpv4.FromBytes(reqWire)
	if err != nil {
		panic("harness: request does not decode: " + err.Error())
	}
	typ := dhcpv4.MessageTypeOffer
	if kind == rkReject {
		typ = dhcpv4.MessageTypeNak
	}
	rep, err := dhcpv4.NewReplyFromRequest(req, dhcpv4.WithMessageType(typ),
		dhcpv4.WithYourIP(net.IPv4(10, 0, byte(serial>>8), byte(serial))),
		dhcpv4.WithServerIP(net.IPv4(10, 0, 0, 1)),
		dhcpv4.WithGeneric(dhcpv4.GenericOptionCode(serialOpt4), serialBytes(serial)))
	if err != nil {
		panic(err)
	}
	// the peer fills in whom it answers itself (it does not rely on the library's reply builder for that)
	rep.OpCode = dhcpv4.OpcodeBootReply
	rep.TransactionID = req.TransactionID
	rep.HWType = req.HWType
	rep.ClientHWAddr = append(net.HardwareAddr(nil), clientHW...)
	switch kind {
	case rkOtherID:
		rep.TransactionID = xid4(altXid)
	case rkWrongHW:
		switch serial % 5 {
		case 3:
			// no hardware address at all (hlen 0)
			rep.ClientHWAddr = net.HardwareAddr{}
		case 4:
			// 16 bytes (the maximum) beginning with the client's six
			rep.ClientHWAddr = append(append(net.HardwareAddr{}, clientHW...), make([]byte, 10)...)
		case 0:
			rep.ClientHWAddr = otherHW
			if !bytes.Equal(req.ClientHWAddr, clientHW) {
				rep.ClientHWAddr = append(net.HardwareAddr(nil), req.ClientHWAddr...) // the request's own (foreign) address
			}
		case 1:
			// the client's address is a proper prefix of this one
			rep.ClientHWAddr = append(append(net.HardwareAddr{}, clientHW...), 0x00, 0x00)
		case 2:
			rep.ClientHWAddr = append(net.HardwareAddr{}, clientHW[:5]...)
		}
	case rkRequestOp:
		rep.OpCode = dhcpv4.OpcodeBootRequest
	}
	b := rep.ToBytes()
	switch kind {
	case rkTruncated:
		b = b[:100+int(serial%130)]
	case rkGarbage:
		g := make([]byte, 40+int(serial%300))
		x := serial*2654435761 + 1
		for i := range g {
			x = x*1664525 + 1013904223
			g[i] = byte(x >> 24)
		}
		b = g
	case rkEmpty:
		b = []byte{}
	case rkAccept, rkReject:
		if serial%16 == 0 {
			// a large but legal reply: 1473..1500 bytes (pad after the end option) fills the client's
			// 1500-byte read buffer to the brim, and with IP + UDP headers exceeds 1500 on a raw link
			b = append(b, make([]byte, 1473+int(serial/16%28)-len(b))...)
		}
	case rkOversize:
		// trailing pad bytes after the end option: the 1500 bytes the client reads still decode
		// (at most 1540: a raw-frame reader offering 1500 bytes must have room for 60 + 8 + 1500)
		b = append(b, make([]byte, 1501+int(serial%40)-len(b))...)
	}
	return b
}

func info4(m *dhcpv4.DHCPv4) pktInfo {
	in := pktInfo{Decodes: true}
	in.Xid = binary.BigEndian.Uint32(m.TransactionID[:])
	in.Typ = int(m.MessageType())
	in.Eligible = m.OpCode == dhcpv4.OpcodeBootReply && bytes.Equal(m.ClientHWAddr, clientHW)
	if b := m.Options.Get(dhcpv4.GenericOptionCode(serialOpt4)); len(b) == 4 {
		in.Serial = binary.BigEndian.Uint32(b)
	}
	return in
}

func (v4proto) Inspect(wire []byte) pktInfo {
	m, err := dhcpv4.FromBytes(append([]byte(nil), wire...))
	if err != nil {
		return pktInfo{}
	}
	in := info4(m)
	// Whom a datagram is for is read from the wire with an independent BOOTP header reader
	// (RFC 951/2131: op at 0, hlen at 2, xid at 4, chaddr at 28), not through the library:
	// "a BOOTREPLY for the client's hardware address" must not depend on how the decoder
	// under test interprets hlen.
	if len(wire) >= 44 {
		in.Xid = binary.BigEndian.Uint32(wire[4:8])
		hl := int(wire[2])
		if hl > 16 {
			hl = 16 // the chaddr field has 16 bytes
		}
		in.Eligible = wire[0] == 2 && hl == len(clientHW) && bytes.Equal(wire[28:28+len(clientHW)], clientHW)
	}
	return in
}

func (v4proto) MsgInfo(m interface{}) (pktInfo, bool) {
	p, _ := m.(*dhcpv4.DHCPv4)
	if p == nil {
		return pktInfo{}, true
	}
	return info4(p), false
}

func (v4proto) MsgBytes(m interface{}) []byte { return m.(*dhcpv4.DHCPv4).ToBytes() }

func (v4proto) Redecode(wire []byte) []byte {
	m, err := dhcpv4.FromBytes(append([]byte(nil), wire...))
	if err != nil {
		return nil
	}
	return m.ToBytes()
}

func (v4proto) IsInUse(err error) bool {
	var e *nclient4.ErrTransactionIDInUse
	return errors.As(err, &e)
}

func (v4proto) IsNoResponse(err error) bool { return errors.Is(err, nclient4.ErrNoResponse) }

// ---------------------------------------------------------------- DHCPv6

type v6proto struct{}

type v6client struct{ c *nclient6.Client }

var clientDUID = &dhcpv6.DUIDLL{HWType: 1, LinkLayerAddr: clientHW}

func (v6proto) Name() string   { return "v6" }
func (v6proto) XidBits() int   { return 24 }
func (v6proto) AcceptTyp() int { return int(dhcpv6.MessageTypeAdvertise) }
func (v6proto) Dest() *net.UDPAddr {
	return &net.UDPAddr{IP: net.ParseIP("fe80::77"), Port: 5547, Zone: "eth7"} // a link-local destination needs its zone
}
func (v6proto) HasBufferCap() bool { return nclient6.SimHasBufferCap }

func (v6proto) NewClient(conn net.PacketConn, T time.Duration, tries int, bufcap int, logf func(string), variant int) (clientHandle, error) {
	opts := []nclient6.ClientOpt{nclient6.WithTimeout(T), nclient6.WithRetry(tries)}
	if variant&1 != 0 {
		opts = append(opts, nclient6.WithLogDroppedPackets()) // (the default logger prints nothing)
	}
	if variant&2 != 0 {
		opts = append(opts, nclient6.WithBroadcastAddr(&net.UDPAddr{IP: net.ParseIP("ff02::1:2"), Port: 547}))
	} else if variant&4 != 0 {
		// a configured unicast server: irrelevant to calls that name their destination
		opts = append(opts, nclient6.WithBroadcastAddr(&net.UDPAddr{IP: net.ParseIP("2001:db8::547"), Port: 547}))
	}
	switch (variant >> 3) & 3 {
	case 1:
		opts = append(opts, nclient6.WithSummaryLogger())
	case 2:
		opts = append(opts, nclient6.WithDebugLogger())
	}
	if bufcap >= 0 {
		opts = append(opts, nclient6.SimWithBufferCap(bufcap))
	}
	c, err := nclient6.NewWithConn(conn, clientHW, opts...)
	if err != nil {
		return nil, err
	}
	return v6client{c}, nil
}

func (c v6client) SendAndRead(ctx context.Context, dest *net.UDPAddr, req interface{}, match func(m interface{}) bool) (interface{}, error) {
	var m nclient6.Matcher
	if match != nil {
		m = func(p *dhcpv6.Message) bool { return match(p) }
	}
	r, err := c.c.SendAndRead(ctx, dest, req.(*dhcpv6.Message), m)
	return r, err
}

func (c v6client) Close() error { return c.c.Close() }

func xid6(x uint32) dhcpv6.TransactionID {
	return dhcpv6.TransactionID{byte(x >> 16), byte(x >> 8), byte(x)}
}

func withXid6(x uint32) dhcpv6.Modifier {
	return func(d dhcpv6.DHCPv6) {
		if m, ok := d.(*dhcpv6.Message); ok {
			m.TransactionID = xid6(x)
		}
	}
}

func serialOption6(serial uint32) dhcpv6.Modifier {
	return dhcpv6.WithOption(&dhcpv6.OptionGeneric{OptionCode: dhcpv6.OptionCode(serialOpt6), OptionData: serialBytes(serial)})
}

func (v6proto) BuildRequest(xid uint32, serial uint32) (interface{}, []byte) {
	mods := []dhcpv6.Modifier{dhcpv6.WithClientID(clientDUID), withXid6(xid), serialOption6(serial)}
	if serial%2 == 0 {
		// a requested-options list that is not in ascending order (23, 24, 17), an elapsed-time option
		mods = append(mods, dhcpv6.WithRequestedOptions(dhcpv6.OptionVendorOpts), dhcpv6.WithOption(dhcpv6.OptElapsedTime(0)))
	}
	m, err := dhcpv6.NewSolicit(clientHW, mods...)
	if err != nil {
		panic(err)
	}
	// SendAndRead sends any message: the kind of message must not matter to routing, timing or retries
	m.MessageType = []dhcpv6.MessageType{dhcpv6.MessageTypeSolicit, dhcpv6.MessageTypeRequest, dhcpv6.MessageTypeSolicit, dhcpv6.MessageTypeRenew,
		dhcpv6.MessageTypeInformationRequest, dhcpv6.MessageTypeRebind, dhcpv6.MessageTypeRequest, dhcpv6.MessageTypeConfirm, dhcpv6.MessageTypeRelease}[(serial/2)%9]
	return m, m.ToBytes()
}

func (v6proto) BuildReply(reqWire []byte, kind replyKind, serial uint32, altXid uint32) []byte {
	req, err := dhcpv6.MessageFromBytes(reqWire)
	if err != nil {
		panic("harness: request does not decode: " + err.Error())
	}
	req.MessageType = dhcpv6.MessageTypeSolicit
	rep, err := dhcpv6.NewAdvertiseFromSolicit(req, serialOption6(serial),
		dhcpv6.WithServerID(&dhcpv6.DUIDLL{HWType: 1, LinkLayerAddr: net.HardwareAddr{2, 0, 0, 0, 0, byte(serial)}}))
	if err != nil {
		panic(err)
	}
	switch kind {
	case rkReject:
		rep.MessageType = dhcpv6.MessageTypeReply
	case rkOtherID, rkWrongHW:
		rep.TransactionID = xid6(altXid)
	case rkRequestOp:
		rep.MessageType = dhcpv6.MessageTypeRelayReply // not a Message: the client's decoder refuses it
	}
	b := rep.ToBytes()
	if kind == rkRequestOp && serial%2 == 1 {
		// a well-formed relay envelope around an acceptable reply that carries the call's
		// transaction id: a relay message has no transaction id of its own and is not for a client
		rep.MessageType = dhcpv6.MessageTypeAdvertise
		typ := dhcpv6.MessageTypeRelayReply
		if serial%4 == 1 {
			typ = dhcpv6.MessageTypeRelayForward
		}
		if r, err := dhcpv6.EncapsulateRelay(rep, typ, net.ParseIP("2001:db8::1"), net.ParseIP("fe80::1")); err == nil {
			b = r.ToBytes()
		}
	}
	switch kind {
	case rkTruncated:
		if n := 5 + int(serial%20); n < len(b) {
			b = b[:n]
		}
	case rkGarbage:
		g := make([]byte, 3+int(serial%120))
		x := serial*2654435761 + 1
		for i := range g {
			x = x*1664525 + 1013904223
			g[i] = byte(x >> 24)
		}
		b = g
	case rkEmpty:
		b = []byte{}
	case rkOversize:
		// one big trailing option: what fits into the client's buffer ends inside it and does not decode
		b = append(b, opt6(65020, make([]byte, 1500+int(serial%200)))...)
	}
	return b
}

func info6(m *dhcpv6.Message) pktInfo {
	in := pktInfo{Decodes: true, Eligible: true}
	in.Xid = uint32(m.TransactionID[0])<<16 | uint32(m.TransactionID[1])<<8 | uint32(m.TransactionID[2])
	in.Typ = int(m.MessageType)
	if o := m.GetOneOption(dhcpv6.OptionCode(serialOpt6)); o != nil {
		if b := o.ToBytes(); len(b) == 4 {
			in.Serial = binary.BigEndian.Uint32(b)
		}
	}
	return in
}

func (v6proto) Inspect(wire []byte) pktInfo {
	m, err := dhcpv6.MessageFromBytes(append([]byte(nil), wire...))
	if err != nil {
		return pktInfo{}
	}
	in := info6(m)
	if len(wire) >= 4 {
		// the transaction id as it is on the wire (RFC 8415 §8: bytes 1-3), read independently
		in.Xid = uint32(wire[1])<<16 | uint32(wire[2])<<8 | uint32(wire[3])
	}
	return in
}

func (v6proto) MsgInfo(m interface{}) (pktInfo, bool) {
	p, _ := m.(*dhcpv6.Message)
	if p == nil {
		return pktInfo{}, true
	}
	return info6(p), false
}

func (v6proto) MsgBytes(m interface{}) []byte { return m.(*dhcpv6.Message).ToBytes() }

func (v6proto) Redecode(wire []byte) []byte {
	m, err := dhcpv6.MessageFromBytes(append([]byte(nil), wire...))
	if err != nil {
		return nil
	}
	return m.ToBytes()
}

// nclient6 has no type for the refusal of a pending transaction id, and its wording is not
// API: ccState.refused recognises it without reading the text.
func (v6proto) IsInUse(err error) bool { return false }

func (v6proto) IsNoResponse(err error) bool { return errors.Is(err, nclient6.ErrNoResponse) }
