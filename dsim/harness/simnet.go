//go:build go1.25

package zzsimharness

import (
	"container/heap"
	"errors"
	"net"
	"os"
	"time"

	simrt "github.com/insomniacslk/dhcp/zzsimrt"
)

// ---------------------------------------------------------------- timed actions

type netEvent struct {
	at  time.Duration
	seq int
	fn  func()
}

type netHeap []netEvent

func (h netHeap) Len() int { return len(h) }
func (h netHeap) Less(i, j int) bool {
	return h[i].at < h[j].at || (h[i].at == h[j].at && h[i].seq < h[j].seq)
}
func (h netHeap) Swap(i, j int)       { h[i], h[j] = h[j], h[i] }
func (h *netHeap) Push(x interface{}) { *h = append(*h, x.(netEvent)) }
func (h *netHeap) Pop() interface{} {
	o := *h
	n := len(o)
	x := o[n-1]
	*h = o[:n-1]
	return x
}

// Net is the network / stimulus actor: one task executing timed actions
// (datagram deliveries, cancellations, gate releases) in (time, seq) order.
type Net struct {
	s       *simrt.Sim
	q       netHeap
	seq     int
	kick    chan struct{}
	stopped bool
	Task    *simrt.Task
}

var (
	siteNetLoop = simrt.HSite("net.loop")
	siteNetWait = simrt.HSite("net.wait")
)

func NewNet(s *simrt.Sim) *Net {
	n := &Net{s: s, kick: make(chan struct{}, 1)}
	n.Task = s.GoTask("net", n.run)
	return n
}

// After schedules fn to run on the net task d from now (virtual time).
func (n *Net) After(d time.Duration, fn func()) {
	if d < 0 {
		d = 0
	}
	n.seq++
	heap.Push(&n.q, netEvent{at: n.s.Now() + d, seq: n.seq, fn: fn})
	n.poke()
}

func (n *Net) poke() {
	select {
	case n.kick <- struct{}{}:
	default:
	}
}

// Stop ends the net task once its queue is empty (pending actions are dropped when drop is true).
func (n *Net) Stop(drop bool) {
	n.stopped = true
	if drop {
		n.q = nil
	}
	n.poke()
}

func (n *Net) Pending() int { return len(n.q) }

func (n *Net) run() {
	for {
		simrt.Yield(siteNetLoop)
		if len(n.q) == 0 {
			if n.stopped {
				return
			}
			<-n.kick
			simrt.Woke(siteNetWait)
			continue
		}
		d := n.q[0].at - n.s.Now()
		if d <= 0 {
			ev := heap.Pop(&n.q).(netEvent)
			ev.fn()
			continue
		}
		tm := time.NewTimer(d)
		select {
		case <-tm.C:
		case <-n.kick:
		}
		tm.Stop()
		simrt.Woke(siteNetWait)
	}
}

// ---------------------------------------------------------------- simulated PacketConn

type dgram struct {
	b      []byte
	from   net.Addr
	err    error // non-nil: this item is a read error
	serial int   // harness serial of the datagram (0: none)
	tag    string
}

// Conn is a simulated net.PacketConn. All state is touched only by the baton holder.
type Conn struct {
	s       *simrt.Sim
	Name    string
	inbox   []dgram
	waiters []chan struct{}
	closed  bool
	Local   net.Addr

	// OnWrite is the scenario's peer: called on the writer's task for every WriteTo
	// that is not failed by a fault. It may schedule replies on a Net.
	OnWrite func(b []byte, to net.Addr)
	// WriteErr, if set, is consulted first; a non-nil result fails the WriteTo.
	WriteErr func(b []byte, to net.Addr) error
	// OnWriteFail is called when a WriteTo fails for a reason of the connection's own (an
	// expired write deadline the writer had set).
	OnWriteFail func(b []byte, to net.Addr)
	// OnRead is called when a datagram is handed to a reader (after the copy into its buffer).
	OnRead func(d dgram, n int)
	// OnIdle is called when a reader finds the queue empty and is about to block.
	OnIdle func()
	// OnReadEnter is called whenever a reader (re-)enters ReadFrom: the previous datagram has been dealt with.
	OnReadEnter func()
	// writeDelay, set by OnWrite through SetWriteDelay, makes the WriteTo in progress *on that
	// task* take that long (keyed by task: OnWrite may reach a scheduling point, and another
	// writer must not pick up the delay meant for this one).
	writeDelay map[int]time.Duration
	// CloseErr is what Close returns the first time.
	CloseErr error

	// deadlines as package net documents them (bubble clock); zero: none
	readDeadline, writeDeadline time.Time

	Reads, Writes int
	// reads that returned an injected error / found the connection closed
	ErrReads, ClosedReads int
	siteRead      int
	siteReadWait  int
	siteWrite     int
	siteClose     int
}

func NewConn(s *simrt.Sim, name string, local net.Addr) *Conn {
	return &Conn{s: s, Name: name, Local: local,
		siteRead:     simrt.HSite(name + ".ReadFrom"),
		siteReadWait: simrt.HSite(name + ".ReadFrom.wait"),
		siteWrite:    simrt.HSite(name + ".WriteTo"),
		siteClose:    simrt.HSite(name + ".Close"),
	}
}

func errClosed(op string) error {
	return &net.OpError{Op: op, Net: "udp", Err: net.ErrClosed}
}

// Deliver queues a datagram (or read error) for the reader. Call from a task.
func (c *Conn) Deliver(d dgram) {
	if c.closed {
		return
	}
	c.inbox = append(c.inbox, d)
	c.wakeReaders()
}

func (c *Conn) wakeReaders() {
	for _, w := range c.waiters {
		close(w)
	}
	c.waiters = nil
}

func (c *Conn) ReadFrom(b []byte) (int, net.Addr, error) {
	simrt.Yield(c.siteRead)
	if c.OnReadEnter != nil {
		c.OnReadEnter()
	}
	for {
		if c.closed {
			c.s.Ev("rx.err", -1, 0, c.Name+": closed", nil)
			c.ClosedReads++
			return 0, nil, errClosed("read")
		}
		if len(c.inbox) > 0 {
			d := c.inbox[0]
			c.inbox = c.inbox[1:]
			c.Reads++
			if d.err != nil {
				c.s.Ev("rx.err", -1, 0, c.Name+": "+d.err.Error(), nil)
				c.ErrReads++
				return 0, nil, d.err
			}
			n := copy(b, d.b)
			if c.OnRead != nil {
				c.OnRead(d, n)
			}
			return n, d.from, nil
		}
		if !c.readDeadline.IsZero() && !time.Now().Before(c.readDeadline) {
			c.s.Ev("rx.err", -1, 0, c.Name+": read deadline", nil)
			return 0, nil, &net.OpError{Op: "read", Net: "udp", Err: os.ErrDeadlineExceeded}
		}
		w := make(chan struct{})
		c.waiters = append(c.waiters, w)
		if c.OnIdle != nil {
			c.OnIdle() // the reader has consumed everything queued so far
		}
		if c.readDeadline.IsZero() {
			<-w
		} else {
			tm := time.NewTimer(time.Until(c.readDeadline))
			select {
			case <-w:
			case <-tm.C:
			}
			tm.Stop()
		}
		simrt.Woke(c.siteReadWait)
	}
}

func (c *Conn) WriteTo(b []byte, to net.Addr) (int, error) {
	simrt.Yield(c.siteWrite)
	if c.closed {
		c.s.Ev("tx.err", -1, 0, c.Name+": closed", nil)
		return 0, errClosed("write")
	}
	if !c.writeDeadline.IsZero() && !time.Now().Before(c.writeDeadline) {
		if c.OnWriteFail != nil {
			c.OnWriteFail(b, to) // the scenario records it like an injected write error
		}
		return 0, &net.OpError{Op: "write", Net: "udp", Err: os.ErrDeadlineExceeded}
	}
	if c.WriteErr != nil {
		if err := c.WriteErr(b, to); err != nil {
			return 0, err
		}
	}
	c.Writes++
	if c.OnWrite != nil {
		c.OnWrite(append([]byte(nil), b...), to)
	}
	if d := c.writeDelay[c.s.CurTask()]; d > 0 {
		// a slow socket: the write itself takes (virtual) time
		delete(c.writeDelay, c.s.CurTask())
		simrt.Sleep(d, c.siteWrite)
	}
	return len(b), nil
}

// SetWriteDelay is called from OnWrite: the WriteTo the calling task is in takes d.
func (c *Conn) SetWriteDelay(d time.Duration) {
	if c.writeDelay == nil {
		c.writeDelay = map[int]time.Duration{}
	}
	c.writeDelay[c.s.CurTask()] = d
}

func (c *Conn) Close() error {
	simrt.Yield(c.siteClose)
	if c.closed {
		return errClosed("close")
	}
	c.closed = true
	c.wakeReaders()
	return c.CloseErr
}

// Pending is the number of queued items no reader has taken yet.
func (c *Conn) Pending() int { return len(c.inbox) }

// ReaderWaiting reports whether a reader is blocked in ReadFrom.
func (c *Conn) ReaderWaiting() bool { return len(c.waiters) > 0 }

func (c *Conn) Closed() bool        { return c.closed }
func (c *Conn) LocalAddr() net.Addr { return c.Local }

// Deadlines behave as package net documents them: a read deadline applies to pending
// and future reads (a blocked reader is woken to look at the new value), a write
// deadline to future writes. The library does not use them today; a change that
// starts to must meet a connection that honours them.
func (c *Conn) SetDeadline(t time.Time) error {
	c.readDeadline, c.writeDeadline = t, t
	c.wakeReaders()
	return nil
}

func (c *Conn) SetReadDeadline(t time.Time) error {
	c.readDeadline = t
	c.wakeReaders()
	return nil
}

func (c *Conn) SetWriteDeadline(t time.Time) error {
	c.writeDeadline = t
	return nil
}

var errInjectedRead = errors.New("simnet: injected read error")
var errInjectedWrite = errors.New("simnet: injected write error")
var errInjectedClose = errors.New("simnet: injected close error")

// ---------------------------------------------------------------- gates

// Gate is a latch harness actors (e.g. blocking matchers) wait on.
type Gate struct {
	s       *simrt.Sim
	open    bool
	waiters []chan struct{}
	site    int
}

func NewGate(s *simrt.Sim, name string) *Gate {
	return &Gate{s: s, site: simrt.HSite("gate." + name)}
}

func (g *Gate) Wait() {
	simrt.Yield(g.site)
	for !g.open {
		w := make(chan struct{})
		g.waiters = append(g.waiters, w)
		<-w
		simrt.Woke(g.site)
	}
}

func (g *Gate) Open() {
	if g.open {
		return
	}
	g.open = true
	for _, w := range g.waiters {
		close(w)
	}
	g.waiters = nil
}

func (g *Gate) IsOpen() bool { return g.open }

// sleep is a virtual-time sleep for harness tasks.
func sleep(d time.Duration, site int) {
	if d <= 0 {
		simrt.Yield(site)
		return
	}
	simrt.Sleep(d, site)
}

// join waits (harness level) until every task in ts has finished and creates the
// happens-before edge a real program's WaitGroup would.
type joiner struct {
	s    *simrt.Sim
	left int
	done *Gate
	ts   []*simrt.Task
}

func newJoiner(s *simrt.Sim, name string) *joiner {
	return &joiner{s: s, done: NewGate(s, "join."+name)}
}

func (j *joiner) Go(name string, fn func()) *simrt.Task {
	j.left++
	var t *simrt.Task
	t = j.s.GoTask(name, func() {
		defer func() {
			j.left--
			if j.left == 0 {
				j.done.Open()
			}
		}()
		fn()
	})
	j.ts = append(j.ts, t)
	return t
}

func (j *joiner) Wait() {
	if j.left > 0 {
		j.done.Wait()
	}
	for _, t := range j.ts {
		j.s.JoinEdge(t)
	}
}
