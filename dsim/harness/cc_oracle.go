//go:build go1.25

package zzsimharness

import (
	"bytes"
	"context"
	"errors"
	"fmt"
	"sort"
	"strings"
	"time"

	simrt "github.com/insomniacslk/dhcp/zzsimrt"
)

// Oracles of the client-core scenarios. Every rule is violated only by what the
// recorded history proves; ambiguous edges (ties in virtual time, events inside
// a WriteTo) accept every outcome (DESIGN.md §4).

type vio struct {
	list []simrt.Violation
}

func (v *vio) add(rule, format string, a ...interface{}) {
	v.list = append(v.list, simrt.Violation{Rule: rule, Msg: fmt.Sprintf(format, a...)})
}

// tries splits a call's life into tries: try i runs from its i-th successful
// WriteTo to the next WriteTo attempt (or the return).
type tryRec struct {
	tx     *txRec
	endSeq int
	endT   time.Duration
	last   bool
}

func (c *ccCall) tries() []tryRec {
	var out []tryRec
	for i, tx := range c.txs {
		if tx.failed {
			continue
		}
		tr := tryRec{tx: tx, endSeq: c.retSeq, endT: c.retT, last: true}
		if i+1 < len(c.txs) {
			tr.endSeq = c.txs[i+1].invSeq
			tr.endT = c.txs[i+1].t
			tr.last = false
		}
		if !c.returned {
			tr.endSeq = 1 << 30
			tr.endT = 1 << 62
		}
		out = append(out, tr)
	}
	return out
}

func (st *ccState) eligibleFor(c *ccCall, r *rxRec) bool {
	return r.info.Eligible && r.info.Xid == c.spec.xid
}

// handovers returns, in order, what call c was handed (matcher invocations, or the
// returned message of a nil-matcher call).
func (st *ccState) handovers(c *ccCall) []*matchRec {
	hs := append([]*matchRec(nil), c.matches...)
	if c.spec.mk == mkNil && c.returned && c.err == nil && !c.retNil {
		if c.nilRet == nil {
			c.nilRet = &matchRec{seq: c.retSeq, doneSeq: c.retSeq, t: c.retT, doneT: c.retT, info: c.retInfo, ptr: c.ret, verdict: true, bytes: st.cfg.p.MsgBytes(c.ret)}
		}
		hs = append(hs, c.nilRet)
	}
	return hs
}

func (st *ccState) canon(r *rxRec) []byte {
	if r.canon == nil && r.info.Decodes {
		r.canon = st.cfg.p.Redecode(r.bytes)
	}
	return r.canon
}

// checkHandovers is R1 (own transaction, never nil) and the global part of R2
// (no message object handed over twice; every handed message is the decoding of
// a datagram delivered earlier; not more hand-overs than deliveries of it).
func (st *ccState) checkHandovers(v *vio) {
	ptrs := map[interface{}]int{}
	handed := map[string]int{}
	type hm struct {
		c *ccCall
		m *matchRec
	}
	var all []hm
	for _, c := range st.calls {
		for _, m := range st.handovers(c) {
			all = append(all, hm{c, m})
		}
	}
	sort.SliceStable(all, func(i, j int) bool { return all[i].m.seq < all[j].m.seq }) // global order of hand-overs
	for _, h := range all {
		c, m := h.c, h.m
		{
			if m.isNil {
				v.add("R1-nil", "call %d (xid %x): matcher was handed a nil message at #%d", c.id, c.spec.xid, m.seq)
				continue
			}
			if !m.info.Eligible || m.info.Xid != c.spec.xid {
				v.add("R1-own", "call %d (xid %x): was handed a message with xid %x eligible=%v (serial %d) at #%d",
					c.id, c.spec.xid, m.info.Xid, m.info.Eligible, m.info.Serial, m.seq)
			}
			ptrs[m.ptr]++
			if ptrs[m.ptr] == 2 {
				v.add("R2-shared", "message object (serial %d) was handed over more than once (call %d at #%d)", m.info.Serial, c.id, m.seq)
			}
			n := 0
			for _, r := range st.rx {
				if r.seq < m.seq && r.info.Decodes && r.info.Serial == m.info.Serial && bytes.Equal(st.canon(r), m.bytes) {
					n++
				}
			}
			if n == 0 {
				v.add("R2-provenance", "call %d: message handed over at #%d (serial %d) is not the decoding of any datagram delivered before", c.id, m.seq, m.info.Serial)
			}
			handed[string(m.bytes)]++
			if n > 0 && handed[string(m.bytes)] > n {
				v.add("R2-duplicated", "serial %d was handed over %d times but delivered only %d time(s) before #%d", m.info.Serial, handed[string(m.bytes)], n, m.seq)
			}
		}
	}
}

// checkTrySequences is R3 (and the per-try part of R2): within a try, what the
// call is handed must be a prefix of A' ++ W compared by content, where W is the
// sequence of eligible datagrams delivered after the try's transmission and A' is
// some suffix of A, the eligible datagrams the receive loop may still have had
// in hand when the try registered. It is violated only if no choice of A' fits.
func (st *ccState) checkTrySequences(v *vio, c *ccCall, timing bool) {
	if c.offCaller {
		return // hand-overs made by the receive loop cannot be attributed to tries from outside (see R4)
	}
	hs := st.handovers(c)
	lb := c.invSeq
	for _, tr := range c.tries() {
		var A, W []*rxRec
		for _, r := range st.rx {
			if !st.eligibleFor(c, r) {
				continue
			}
			switch {
			// A also holds what arrived during *earlier tries of this call*: the statement speaks
			// of the call ("arrived while that call was waiting"), and a client that keeps one
			// registration for the whole call hands such a datagram over after the next
			// retransmission, where the unchanged tree (one registration per try) drops it.
			// Both are within the statement; a datagram from before the call was invoked is not
			// (beyond what the receive loop still had in hand). (Invoked, not "first transmitted":
			// a client that registers once at the start of the call is waiting from then on, and a
			// stalled task can put a long time between the two.)
			case r.seq < tr.tx.seq && (r.doneSeq == 0 || r.doneSeq >= lb || r.seq > c.invSeq):
				A = append(A, r)
			case r.seq > tr.tx.seq && r.seq < tr.endSeq:
				W = append(W, r)
			}
		}
		var H []*matchRec
		for _, m := range hs {
			if m.seq > tr.tx.seq && m.seq <= tr.endSeq && !m.isNil {
				H = append(H, m)
			}
		}
		lb = tr.tx.seq
		// deliveries that must have been handed over for timing reasons
		var must []*rxRec
		if timing {
			for _, r := range W {
				if r.t > tr.tx.t && r.t < tr.endT && !st.closedBefore(r.seq) {
					must = append(must, r)
				}
			}
		}
		fits, prompt := false, false
		for k := len(A); k >= 0; k-- {
			seq := append(append([]*rxRec(nil), A[k:]...), W...)
			if len(H) > len(seq) {
				continue
			}
			ok := true
			for i, m := range H {
				if seq[i].seq > m.seq || !bytes.Equal(st.canon(seq[i]), m.bytes) {
					ok = false
					break
				}
			}
			if !ok {
				continue
			}
			fits = true
			pr := true
			for _, r := range must {
				idx := -1
				for i, x := range seq {
					if x == r {
						idx = i
					}
				}
				if idx >= len(H) {
					pr = false
				}
			}
			if pr {
				prompt = true
				break
			}
		}
		ser := func(rs []*rxRec) string {
			var out []string
			for _, r := range rs {
				out = append(out, fmt.Sprintf("%d@#%d", r.info.Serial, r.seq))
			}
			return "[" + strings.Join(out, " ") + "]"
		}
		if !fits {
			var hh []string
			for _, m := range H {
				hh = append(hh, fmt.Sprintf("%d@#%d", m.info.Serial, m.seq))
			}
			v.add("R3-sequence", "call %d, try transmitted at #%d: handed over [%s] (serial@event), which is not a prefix, in arrival order and without gaps, of the eligible datagrams delivered after the transmission %s, even allowing any tail of those still in the receive loop's hands before it %s",
				c.id, tr.tx.seq, strings.Join(hh, " "), ser(W), ser(A))
		} else if !prompt {
			v.add("R3-prompt", "call %d, try transmitted at #%d (t=%v..%v): eligible datagram(s) %s were delivered strictly inside the try but only %d message(s) were handed over", c.id, tr.tx.seq, tr.tx.t, tr.endT, ser(must), len(H))
		}
	}
}

// ---------------------------------------------------------------- C10

func (st *ccState) oracleRouting(v *vio) {
	cfg := st.cfg
	st.checkHandovers(v)
	gatedRun := false
	for _, c := range st.calls {
		if c.spec.mk == mkGated {
			gatedRun = true
		}
	}
	timing := !cfg.stall && !gatedRun && st.readErrSeq == 0
	for _, c := range st.calls {
		if !c.returned {
			continue // reported as deadlock by the scheduler
		}
		// R1 on the return value
		if c.err == nil {
			if c.retNil {
				v.add("R1-nil", "call %d (xid %x): returned (nil, nil)", c.id, c.spec.xid)
			} else if !c.retInfo.Eligible || c.retInfo.Xid != c.spec.xid {
				v.add("R1-own", "call %d (xid %x): returned a message with xid %x eligible=%v", c.id, c.spec.xid, c.retInfo.Xid, c.retInfo.Eligible)
			}
		}
		// R4 result vs verdicts
		if c.spec.mk != mkNil && c.offCaller {
			// The matcher of this call was (also) invoked on a goroutine other than the caller's:
			// the client evaluates matchers where it receives. A verdict is then not a commitment
			// of the call (the caller may be taking its timer or its context at that instant, as
			// it may on the unchanged tree before it ever looks at the datagram), and hand-overs
			// cannot be attributed to tries from outside. What the statement says is judged on
			// the result: a returned message is one the matcher accepted.
			if c.err == nil {
				ok := false
				for _, m := range c.matches {
					if m.verdict && m.ptr == c.ret {
						ok = true
					}
				}
				if !ok {
					v.add("R4-result", "call %d: returned a message (serial %d) the matcher never accepted", c.id, c.retInfo.Serial)
				}
			}
			continue
		}
		if c.spec.mk != mkNil {
			firstTrue := -1
			for i, m := range c.matches {
				if m.verdict && firstTrue < 0 {
					firstTrue = i
				}
			}
			if firstTrue >= 0 {
				if firstTrue != len(c.matches)-1 {
					v.add("R4-after-accept", "call %d: %d hand-over(s) after the matcher accepted at #%d", c.id, len(c.matches)-1-firstTrue, c.matches[firstTrue].seq)
				}
				m := c.matches[firstTrue]
				for _, tx := range c.txs {
					// (a transmission at the very instant of the acceptance is a tie: a client that
					// retransmits from a goroutine of its own may have its timer fire at the instant
					// the matcher accepts, and from outside the two cannot be ordered)
					// Nor is it judged in runs with the stalled-task fault: a caller stalled between the
					// matcher's verdict and telling its retransmitter to stop lets one more datagram
					// out, a scheduling race no observer outside the matcher can see. (C10 itself says
					// nothing about transmissions; this is C12's clause, sampled here under schedules
					// the exact-timing C12 scenario does not have.)
					if tx.seq > m.doneSeq && tx.t > m.doneT && !st.cfg.stall {
						// C12's clause, not C10's: a change that breaks only it must not be reported
						// against C10. Counted, not judged, here (S-tx-after-accept judges it for C12).
						st.s.Probe("transmission-after-acceptance (C12's clause, judged there)")
					}
				}
				if !m.isNil {
					if c.err != nil {
						v.add("R4-result", "call %d: matcher accepted serial %d but the call failed with %v", c.id, m.info.Serial, c.err)
					} else if c.ret != m.ptr {
						v.add("R4-result", "call %d: returned message (serial %d) is not the one the matcher accepted (serial %d)", c.id, c.retInfo.Serial, m.info.Serial)
					}
				}
			} else if c.err == nil {
				v.add("R4-result", "call %d: returned a message (serial %d) the matcher never accepted", c.id, c.retInfo.Serial)
			}
		}
		// R3 (order, no loss, first) per try
		st.checkTrySequences(v, c, timing)
	}
	st.oracleRefusal(v)
	st.checkStillReading(v)
	st.checkErrors(v)
}

// checkErrors: a call fails only for a reason the history contains - nothing acceptable
// arrived (no-response), its context ended, its id was in use, a WriteTo failed or the
// client was closed. Any other error means something that should have been dropped
// (an undecodable or foreign datagram) or an internal condition leaked into the call.
func (st *ccState) checkErrors(v *vio) {
	p := st.cfg.p
	for _, c := range st.calls {
		if c.returned && c.err == nil && c.retNil && st.cfg.mode != modeRouting {
			v.add("R1-nil", "call %d (xid %x): returned (nil, nil)", c.id, c.spec.xid) // (the routing oracle reports this itself)
		}
		if !c.returned || c.err == nil {
			continue
		}
		switch {
		case p.IsNoResponse(c.err), st.refused(c), st.hadWriteFailure(c):
			continue
		case isCtxErr(c.err) && c.spec.ck != ctxBackground:
			continue
		}
		closed := false
		for _, cl := range st.closeCalls {
			if cl.invSeq < c.retSeq {
				closed = true // writing to / waiting on a closed client: any error will do (T3 judges the waiting case)
			}
		}
		if closed {
			continue
		}
		if st.readErrSeq != 0 && st.readErrSeq < c.retSeq {
			// the socket's ReadFrom has failed: a client may tell its callers so instead of
			// letting them wait for responses it can no longer receive
			st.s.Probe("call-failed-after-the-socket-read-failed")
			continue
		}
		v.add("R6-unexpected-error", "call %d (xid %x) failed with %q although its context had not ended, its id was free, no WriteTo had failed and the client was open: undecodable or foreign datagrams must be dropped without disturbing any call", c.id, c.spec.xid, c.err.Error())
	}
}

// checkStillReading is the "dropped without disturbing any call" clause seen from
// the socket: while the client is open and no read has failed, every datagram put
// into its socket is read. Judged only where instants are exact (computation takes no
// virtual time, so a loop that is alive has read everything delivered at earlier instants).
func (st *ccState) checkStillReading(v *vio) {
	cfg := st.cfg
	if cfg.stall || cfg.slowWrite || st.readErrSeq != 0 || st.gatedRun() || len(st.closeCalls) == 0 {
		return
	}
	tClose := st.closeCalls[0].invT
	due := 0
	for _, d := range st.delivered {
		if d.t < tClose {
			due++
		}
	}
	if st.sockReads < due {
		d := st.delivered[st.sockReads]
		v.add("R6-stopped-reading", "%d datagram(s) were put into the client's socket strictly before it was closed at t=%v, but only %d were ever read: the receive loop stopped reading although no read had failed (first unread: %q delivered at t=%v)", due, tClose, st.sockReads, d.tag, d.t)
	}
}

func (st *ccState) closedBefore(seq int) bool {
	for _, c := range st.closeCalls {
		if c.invSeq < seq {
			return true
		}
	}
	return false
}

// provenStretches returns, for call a, the event-sequence intervals during which
// it is provably registered: after a try's WriteTo returned and before anything
// that may end the try.
type stretch struct {
	fromSeq, toSeq int
	toT            time.Duration // strict virtual-time bound (timer instant)
}

func (st *ccState) provenStretches(a *ccCall) []stretch {
	var out []stretch
	T := st.cfg.T
	n := 0
	tries := a.tries()
	for k, tr := range tries {
		timeout := T << uint(n)
		n++
		s := stretch{fromSeq: tr.tx.seq, toSeq: tr.endSeq, toT: tr.tx.t + timeout}
		// The try has ended, whatever the configured schedule says, by the instant the call
		// transmits again (a client may retransmit earlier than T·2^k - that is C12's clause and
		// judged there - and between two of its tries the id may be free): nothing is proven
		// from that instant on.
		if k+1 < len(tries) && tries[k+1].tx.t < s.toT {
			s.toT = tries[k+1].tx.t
		}
		// ... and a client that anchors its deadlines at the start of the call (one of the
		// readings C12 accepts) ends try k at invT + T·(2^(k+1)-1), which is earlier than
		// "transmission + T·2^k" whenever a transmission was late (a stalled task)
		if anch := a.invT + T*time.Duration((int64(1)<<uint(k+1))-1); anch < s.toT {
			s.toT = anch
		}
		// anything that may end the try earlier
		if a.cancelSeq != 0 && a.cancelSeq < s.toSeq {
			s.toSeq = a.cancelSeq
		}
		if a.spec.ck == ctxDeadline && a.spec.ctxAt < s.toT {
			s.toT = a.spec.ctxAt
		}
		if a.spec.ck == ctxCancelAt && a.spec.ctxAt < s.toT {
			s.toT = a.spec.ctxAt
		}
		for _, c := range st.closeCalls {
			if c.invSeq < s.toSeq {
				s.toSeq = c.invSeq
			}
		}
		for _, m := range a.matches {
			if m.seq > tr.tx.seq && m.verdict && m.seq < s.toSeq {
				s.toSeq = m.seq
			}
		}
		if a.spec.mk == mkNil {
			// any eligible delivery completes the call, also one the receive loop still
			// had in hand when the try registered (then nothing is proven)
			for _, r := range st.rx {
				if !st.eligibleFor(a, r) {
					continue
				}
				if r.seq > tr.tx.seq && r.seq < s.toSeq {
					s.toSeq = r.seq
				}
				if r.seq < tr.tx.seq && (r.doneSeq == 0 || r.doneSeq >= a.invSeq) {
					s.toSeq = s.fromSeq
				}
			}
		}
		if st.readErrSeq != 0 {
			// the receive loop is gone but registrations stay meaningful: nothing to do
		}
		if s.toSeq > s.fromSeq {
			out = append(out, s)
		}
	}
	return out
}

// refused reports whether a call ended with the refusal C10 speaks of ("refused with an
// error rather than sharing responses"). The statement names no error value. nclient4
// has a type for it; nclient6 has only a sentence, and matching that sentence made a
// reworded message a false alarm (wave 9). So besides the typed error the refusal is
// recognised by what it is not: an error that is none of the kinds the statements name
// for other endings (no response, the context's error), not the consequence of an
// injected write failure, and not returned after Close was called. Whether a refusal was
// *justified* is R5-spurious-refusal's business, so an invented error value is still
// reported, under that rule.
func (st *ccState) refused(c *ccCall) bool {
	if !c.returned || c.err == nil {
		return false
	}
	p := st.cfg.p
	if p.IsInUse(c.err) {
		return true
	}
	if p.IsNoResponse(c.err) || isCtxErr(c.err) || st.hadWriteFailure(c) {
		return false
	}
	for _, cl := range st.closeCalls {
		if cl.invSeq < c.retSeq {
			return false
		}
	}
	return true
}

// afterReadFailure: the socket's ReadFrom had failed before the call returned. A client may
// then fail its calls with an error of its own instead of letting them wait for responses it
// can no longer receive; such an error is explained by the history.
func (st *ccState) afterReadFailure(c *ccCall) bool {
	return st.readErrSeq != 0 && st.readErrSeq < c.retSeq
}

// atTryBoundary: t is the instant at which one of c's tries ends (its write's end plus its wait).
func (st *ccState) atTryBoundary(c *ccCall, t time.Duration) bool {
	j := 0
	for _, tx := range c.txs {
		if tx.failed {
			continue
		}
		if tx.doneT+st.cfg.T*time.Duration(int64(1)<<uint(j)) == t {
			return true
		}
		j++
	}
	return false
}

// idContended: some other call used b's transaction id during b's life.
func (st *ccState) idContended(b *ccCall) bool {
	for _, c := range st.calls {
		if c != b && c.spec.xid == b.spec.xid && c.invSeq < b.retSeq && (!c.returned || c.retSeq > b.invSeq) {
			return true
		}
	}
	return false
}

func (st *ccState) oracleRefusal(v *vio) {
	for _, b := range st.calls {
		if !b.returned {
			continue
		}
		refused := st.refused(b)
		if refused {
			if len(b.txs) > 0 && len(b.tries()) > 0 && false {
				// a later try may be refused after earlier ones transmitted
			}
			// (not at a try boundary: where the matcher runs in the receive loop, an acceptance
			// falling on the instant a try's timer fires can lose against the timer, just as the
			// unchanged tree's select may take the timer and never look at the datagram; the
			// next try may then find the id taken)
			if len(b.matches) > 0 && b.matches[len(b.matches)-1].verdict && !b.offCaller && !st.atTryBoundary(b, b.matches[len(b.matches)-1].doneT) {
				v.add("R5-refused-after-accept", "call %d was refused after its matcher accepted a message", b.id)
			}
			// converse: somebody else must use the id during b's life
			if !st.idContended(b) && !(st.afterReadFailure(b) && !st.cfg.p.IsInUse(b.err)) {
				v.add("R5-spurious-refusal", "call %d (xid %x) was refused (%v) although no other call used that id during its life", b.id, b.spec.xid, b.err)
			}
			continue
		}
		// must b have been refused? Not if its own context had already ended: then C11's
		// "returns at once with the context's error" applies as well, the statement does not
		// rank the two errors, and a call that neither transmitted nor was handed anything
		// shared nothing (what it may have done to the *other* call is judged on that call).
		if end, ok := st.ctxEnd(b); ok && end <= b.retT && isCtxErr(b.err) && len(b.txs) == 0 && len(b.matches) == 0 {
			continue
		}
		// More generally, "refused with an error rather than sharing responses": a call that
		// ended in an error without having transmitted or been handed anything has shared
		// nothing, whatever its reason for refusing (the socket's read has failed, say).
		if b.err != nil && len(b.txs) == 0 && len(b.matches) == 0 {
			continue
		}
		for _, a := range st.calls {
			if a == b || a.spec.xid != b.spec.xid {
				continue
			}
			if st.cfg.mode != modeRouting {
				break // "refused rather than sharing" is C10's clause; C11 only needs T5 (no spurious refusal)
			}
			for _, s := range st.provenStretches(a) {
				if b.invSeq > s.fromSeq && b.retSeq < s.toSeq && b.retT < s.toT {
					v.add("R5-shared", "call %d (xid %x, #%d..#%d) ran entirely while call %d was registered with the same id (#%d..#%d, timer at %v) but was not refused: err=%v, %d transmission(s), %d hand-over(s)",
						b.id, b.spec.xid, b.invSeq, b.retSeq, a.id, s.fromSeq, s.toSeq, s.toT, b.err, len(b.txs), len(b.matches))
				}
			}
		}
	}
}

// ---------------------------------------------------------------- C11

func isCtxErr(err error) bool {
	return errors.Is(err, context.Canceled) || errors.Is(err, context.DeadlineExceeded)
}

func (st *ccState) bound(c *ccCall) time.Duration {
	n := st.cfg.tries
	if n < 0 {
		return 1 << 62
	}
	if n == 0 {
		return 0
	}
	return st.cfg.T * time.Duration((int64(1)<<uint(n))-1)
}

func (st *ccState) ctxEnd(c *ccCall) (time.Duration, bool) {
	switch c.spec.ck {
	case ctxDeadline:
		return c.spec.ctxAt, true
	case ctxCancelAt:
		if c.cancelSeq != 0 {
			return c.cancelT, true
		}
	}
	return 0, false
}

// acceptableAt reports whether a datagram the call's matcher would accept was
// delivered at exactly virtual time t (or in [from, t]).
func (st *ccState) acceptableIn(c *ccCall, from, to time.Duration) *rxRec {
	for _, r := range st.rx {
		if r.t < from || r.t > to || !st.eligibleFor(c, r) || (r.doneSeq != 0 && r.doneSeq < c.invSeq) {
			continue // the receive loop had finished with it before the call started
		}
		if st.matcherWouldAccept(c, r) {
			return r
		}
	}
	return nil
}

func (st *ccState) matcherWouldAccept(c *ccCall, r *rxRec) bool {
	switch c.spec.mk {
	case mkAll, mkNil:
		return true
	case mkType, mkGated, mkRejectN:
		return r.info.Typ == st.cfg.p.AcceptTyp()
	}
	return false
}

// acceptableBy: a datagram the call's matcher would accept was taken from the socket no
// later than virtual time t and before the call returned. Used where C11 only needs to
// know that a response returned at a tie instant (context end, Close) is a real one:
// *when* it must have arrived relative to the call is C10's clause and judged there, so a
// client that reads ahead of its dispatcher is not C11's concern.
func (st *ccState) acceptableBy(c *ccCall, t time.Duration) *rxRec {
	for _, r := range st.rx {
		if r.t > t || r.seq > c.retSeq || !st.eligibleFor(c, r) {
			continue
		}
		if st.matcherWouldAccept(c, r) {
			return r
		}
	}
	return nil
}

func (st *ccState) oracleLiveness(v *vio) {
	cfg := st.cfg
	p := cfg.p
	exact := !cfg.stall
	gated := false
	for _, c := range st.calls {
		if c.spec.mk == mkGated {
			gated = true
		}
	}
	var firstClose *closeRec
	if len(st.closeCalls) > 0 {
		firstClose = &st.closeCalls[0]
	}
	for _, c := range st.calls {
		if !c.returned {
			continue
		}
		if !exact || gated {
			continue
		}
		life := c.retT - c.invT
		// T1 bound
		if b := st.bound(c); life > b {
			v.add("T1-bound", "call %d (T=%v tries=%d): returned after %v, later than the bound %v (err=%v)", c.id, cfg.T, cfg.tries, life, b, c.err)
		}
		// A failed write: the statements say nothing about what a call does when the socket
		// refuses its datagram. The unchanged tree ends the call at once with an error; a client
		// that treats it as a lost datagram and waits out the try is equally within C11 (an
		// earlier rule T1-write-error demanded the former). Either way the call obeys every
		// other rule: the bound, the context, Close, and an error only for a reason the history
		// contains (checkErrors).
		for _, tx := range c.txs {
			if tx.failed {
				if c.err != nil && c.retT == tx.t {
					st.s.Probe("write-failure-ended-the-call-at-once")
				} else {
					st.s.Probe("write-failure-tolerated-by-the-call")
				}
			}
		}
		// T2 context
		if tc, ok := st.ctxEnd(c); ok {
			at := tc
			if at < c.invT {
				at = c.invT
			}
			if c.retT > at {
				v.add("T2-late", "call %d: context ended at t=%v but the call returned at t=%v (err=%v)", c.id, tc, c.retT, c.err)
			}
			if c.retT == at && !isCtxErr(c.err) {
				// accepted alternatives at the tie instant
				ok := false
				if c.err == nil && st.acceptableBy(c, at) != nil {
					ok = true
				}
				if c.err != nil && p.IsNoResponse(c.err) && (c.invT+st.bound(c) == at || (firstClose != nil && firstClose.invT <= at)) {
					ok = true
				}
				if c.err != nil && (st.refused(c) || st.hadWriteFailure(c)) {
					ok = true
				}
				if c.err != nil && firstClose != nil && firstClose.invT <= at {
					ok = true // write on a closed connection
				}
				if c.err != nil && st.afterReadFailure(c) {
					ok = true // the socket's read had failed by then: a client may say so
				}
				if !ok {
					v.add("T2-error", "call %d: context ended at t=%v while the call waited; it returned err=%v instead of the context's error", c.id, tc, c.err)
				}
			}
		}
		// T3 Close
		if firstClose != nil {
			tx := firstClose.invT
			if c.invT <= tx && c.retT >= tx && c.invSeq < firstClose.invSeq {
				if c.retT > tx {
					v.add("T3-late", "call %d: client closed at t=%v but the call returned at t=%v (err=%v)", c.id, tx, c.retT, c.err)
				} else if c.err == nil {
					if st.acceptableBy(c, tx) == nil {
						v.add("T3-error", "call %d: returned a message at the close instant t=%v without an acceptable delivery", c.id, tx)
					}
				} else if !p.IsNoResponse(c.err) && !st.refused(c) && !st.hadWriteFailure(c) && !(st.readErrSeq != 0 && st.readErrSeq < c.retSeq) {
					// "with the no-response error when the client is closed": demanded of a call that
					// provably sat in its wait when Close was called (transmitted, timer and context
					// strictly later, nothing accepted); at a try boundary or context end falling on
					// the close instant other errors are legitimate tie outcomes.
					for _, s := range st.provenStretches(c) {
						if s.fromSeq < firstClose.invSeq && s.toSeq == firstClose.invSeq && tx < s.toT {
							v.add("T3-error-kind", "call %d was waiting for a response when the client was closed at t=%v; it returned err=%v, want the no-response error", c.id, tx, c.err)
						}
					}
				}
			}
			if c.invSeq > firstClose.retSeq && firstClose.returned {
				if c.retT != c.invT || c.err == nil {
					v.add("T3-after-close", "call %d started after Close returned: returned at +%v with err=%v (want: at once, with an error)", c.id, c.retT-c.invT, c.err)
				}
			}
		}
		// T4 promptness
		if c.spec.mk == mkType || c.spec.mk == mkAll || c.spec.mk == mkNil {
			for _, s := range st.provenStretches(c) {
				for _, r := range st.rx {
					if r.seq > s.fromSeq && r.seq < s.toSeq && r.t < s.toT && st.readErrSeq == 0 {
						if acc := st.acceptableIn(c, r.t, r.t); acc != nil && acc == r {
							if c.retT > r.t {
								v.add("T4-prompt", "call %d: acceptable serial %d delivered at t=%v (#%d) while registered, but the call returned at t=%v (err=%v)", c.id, r.info.Serial, r.t, r.seq, c.retT, c.err)
							}
						}
					}
				}
			}
		}
		// error classification at the bound
		if c.err != nil && life == st.bound(c) && cfg.tries > 0 {
			// nothing acceptable => no-response, unless a tie offers something else
		}
	}
	// T5 is R5-spurious-refusal (oracleRefusal): a returned call's id is reusable at once.
	st.oracleRefusal(v)
	st.checkStillReading(v)
	st.checkErrors(v)
	// T6 Close
	for i := range st.closeCalls {
		c := &st.closeCalls[i]
		if !c.returned {
			continue
		}
		if exact && !gated && c.retT != c.invT {
			// "Close always ... returns": no instant is stated. A Close that makes calls wait is
			// reported on the calls (T3-late), one that never returns by the deadlock rule.
			st.s.Probe("close-took-time (not judged)")
		}
		overlapping := false
		for j := range st.closeCalls {
			o := &st.closeCalls[j]
			if j != i && o.invSeq < c.retSeq && (!o.returned || o.retSeq > c.retSeq) {
				overlapping = true // a concurrent Close is still in progress: only the last one to return is judged
			}
		}
		// A call still on its way out when Close returns may own helper goroutines that end
		// with it (a per-call retransmitter, say): "leaving no goroutine behind" is then decided
		// where the property observes it, at the end of the run (rule goroutine-leak), not at
		// this instant. With no call in flight every client goroutine must be gone right here.
		inFlight := false
		for _, k := range st.calls {
			if k.invSeq < c.retSeq && (!k.returned || k.retSeq > c.retSeq) {
				inFlight = true
			}
		}
		if c.liveSUT != 0 && !overlapping && !inFlight {
			v.add("T6-leak", "Close returned at #%d while %d goroutine(s) started by the client were still alive", c.retSeq, c.liveSUT)
		}
	}
}

func (st *ccState) hadWriteFailure(c *ccCall) bool {
	for _, tx := range c.txs {
		if tx.failed {
			return true
		}
	}
	return false
}

// ---------------------------------------------------------------- C12

func (st *ccState) oracleRetry(v *vio) {
	cfg := st.cfg
	p := cfg.p
	for _, c := range st.calls {
		if !c.returned || c.caller != 0 || st.hadWriteFailure(c) {
			continue
		}
		if st.refused(c) && st.idContended(c) {
			continue
		}
		// every transmission: identical bytes, requested destination, exact offset
		// Each wait is double the previous one and starts when the datagram has been
		// handed to the socket (the write may take time: slow-write fault).
		// Where a write takes time the statement can be read two ways and both are accepted:
		// waits counted from the end of the previous write (the unchanged tree: its offsets then
		// drift by the write times), or offsets 0, T, 3T, ... counted from the start of the call
		// as the statement literally has them (a client that anchors its deadlines; a try whose
		// deadline has passed when its write returns is over at once). On an instantaneous
		// socket the two coincide.
		// A third reading arms the wait when the write *begins* (wait j counted from the start
		// of transmission j; again over at once if the write outlasts it).
		expEnd, expEndAnch, expEndStart := c.invT, c.invT, c.invT
		for j, tx := range c.txs {
			want, wantAnch, wantStart := c.invT, c.invT, c.invT
			if j > 0 {
				pv := c.txs[j-1]
				want = pv.doneT + cfg.T*time.Duration(int64(1)<<uint(j-1))
				wantAnch = maxDur(c.invT+cfg.T*time.Duration((int64(1)<<uint(j))-1), pv.doneT)
				wantStart = maxDur(pv.t+cfg.T*time.Duration(int64(1)<<uint(j-1)), pv.doneT)
			}
			expEnd = tx.doneT + cfg.T*time.Duration(int64(1)<<uint(j))
			expEndAnch = maxDur(c.invT+cfg.T*time.Duration((int64(1)<<uint(j+1))-1), tx.doneT)
			expEndStart = maxDur(tx.t+cfg.T*time.Duration(int64(1)<<uint(j)), tx.doneT)
			if tx.t != want && tx.t != wantAnch && tx.t != wantStart {
				v.add("S-offset", "call %d (T=%v tries=%d): transmission %d at +%v, want +%v (previous write returned at +%v)", c.id, cfg.T, cfg.tries, j+1, tx.t-c.invT, want-c.invT, want-c.invT-cfg.T*time.Duration(int64(1)<<uint(maxInt(j-1, 0))))
			}
			if !tx.sameBytes {
				v.add("S-bytes", "call %d: transmission %d differs from the request's encoding", c.id, j+1)
			}
			if !tx.destOK {
				v.add("S-dest", "call %d: transmission %d went to another destination than requested", c.id, j+1)
			}
		}
		life := c.retT - c.invT
		acc := (*matchRec)(nil)
		for _, m := range c.matches {
			if m.verdict {
				acc = m
			}
		}
		if c.offCaller && (c.err != nil || (acc != nil && acc.ptr != c.ret)) {
			acc = nil // a verdict given in the receive loop did not commit the call (see R4)
			for _, m := range c.matches {
				if m.verdict && c.err == nil && m.ptr == c.ret {
					acc = m
				}
			}
		}
		tc, ctxEnded := st.ctxEnd(c)
		closed := len(st.closeCalls) > 0 && st.closeCalls[0].invSeq < c.retSeq
		switch {
		case acc != nil:
			// accepted: returned at the hand-over instant, nothing transmitted afterwards (R4 covers tx)
			// ... or, if a transmission of this call was still being written at that instant
			// (a client may retransmit from a goroutine of its own and join it before
			// returning), when that write returned: the statement gives no instant, C11's
			// "as soon as" cannot mean abandoning a write in progress, and on the unchanged
			// tree the case cannot arise (the caller itself writes)
			inflight := acc.t
			for _, tx := range c.txs {
				if !tx.failed && tx.t <= acc.t && tx.doneT > inflight {
					inflight = tx.doneT
				}
			}
			if c.retT != acc.t && c.retT != inflight {
				v.add("S-accept-late", "call %d: accepted serial %d at t=%v but returned at t=%v", c.id, acc.info.Serial, acc.t, c.retT)
			}
			if c.err != nil {
				v.add("S-accept-err", "call %d: accepted a response but returned err=%v", c.id, c.err)
			}
			for _, tx := range c.txs {
				if tx.invSeq > acc.doneSeq && tx.t > acc.doneT { // same instant: a tie, see R4-tx-after-accept
					v.add("S-tx-after-accept", "call %d: transmission at #%d after acceptance", c.id, tx.seq)
				}
			}
		case ctxEnded && c.retT >= tc && (cfg.tries < 0 || tc <= c.invT+st.bound(c)):
			if c.retT != maxDur(tc, c.invT) {
				v.add("S-cancel-late", "call %d: context ended at t=%v, call returned at t=%v", c.id, tc, c.retT)
			}
			if !isCtxErr(c.err) && !(c.invT+st.bound(c) == tc && p.IsNoResponse(c.err)) {
				v.add("S-cancel-err", "call %d: context ended at t=%v, call returned err=%v", c.id, tc, c.err)
			}
		case closed:
			// covered by C11
		default:
			// ran to exhaustion
			if cfg.tries < 0 {
				v.add("S-infinite", "call %d: tries=%d but the call returned (err=%v) without acceptance, cancellation or close", c.id, cfg.tries, c.err)
				break
			}
			if len(c.txs) != cfg.tries {
				v.add("S-count", "call %d (tries=%d): %d transmission(s)", c.id, cfg.tries, len(c.txs))
			}
			if c.retT != expEnd && c.retT != expEndAnch && c.retT != expEndStart {
				v.add("S-total", "call %d (T=%v tries=%d): failed after %v, want exactly %v", c.id, cfg.T, cfg.tries, life, expEnd-c.invT)
			}
			if !p.IsNoResponse(c.err) {
				v.add("S-error", "call %d: exhausted its tries but returned err=%v, want the no-response error", c.id, c.err)
			}
		}
	}
}

func maxInt(a, b int) int {
	if a > b {
		return a
	}
	return b
}

func maxDur(a, b time.Duration) time.Duration {
	if a > b {
		return a
	}
	return b
}

// reachProbes counts, from the recorded history, the situations the design wants
// to be sure are reached (DESIGN.md §3.8).
func (st *ccState) reachProbes() {
	s := st.s
	p := st.cfg.p
	for _, c := range st.calls {
		if !c.returned {
			continue
		}
		switch {
		case c.err == nil:
			s.Probe("call-returned-response")
		case st.refused(c):
			s.Probe("call-refused-id-in-use")
		case p.IsNoResponse(c.err):
			s.Probe("call-no-response")
		case isCtxErr(c.err):
			s.Probe("call-context-error")
		default:
			s.Probe("call-other-error")
		}
		if c.cancelSeq != 0 {
			s.Probe("cancel-while-call-waits")
		}
		for _, cl := range st.closeCalls {
			if cl.invSeq > c.invSeq && cl.invSeq < c.retSeq {
				s.Probe("close-while-call-waits")
			}
		}
		trs := c.tries()
		if len(trs) > 1 {
			s.Probe("call-retransmitted")
		}
		for _, tr := range trs {
			for _, r := range st.rx {
				if st.eligibleFor(c, r) && r.t == tr.endT && r.seq > tr.tx.seq {
					s.Probe("tie-delivery-at-try-end-instant")
				}
			}
		}
		if len(c.matches) > 1 {
			s.Probe("call-saw-rejected-then-more")
		}
	}
	if len(st.closeCalls) > 1 {
		s.Probe("close-called-twice")
	}
	if st.readErrSeq != 0 {
		s.Probe("receive-loop-ended-by-read-error")
	}
}
