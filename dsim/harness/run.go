//go:build go1.25

// Package zzsimharness holds the scenarios, simulated network and oracles of
// the deterministic simulation (DESIGN.md §3.4–§4). It is copied into the
// scratch copy of the repository and built as one test binary.
package zzsimharness

import (
	"crypto/sha256"
	"encoding/hex"
	"fmt"
	"log"
	"sort"
	"strings"
	"testing"
	"testing/synctest"
	"time"

	simrt "github.com/insomniacslk/dhcp/zzsimrt"
)

// Scenario is one family of simulated runs.
type Scenario struct {
	Name     string
	Property string // property whose rules this scenario's oracle reports
	Grid     int    // >0: the first tape choice enumerates a grid of this size by run index
	// Run sets up tasks on s (it is called on the bubble's root goroutine before the
	// scheduler starts) and returns the oracle to evaluate after the run.
	Run func(s *simrt.Sim, tier string) (oracle func(res simrt.RunResult) []simrt.Violation)
}

var scenarios = map[string]*Scenario{}

// The library's summary / debug loggers print through package log: keep the work
// (formatting every message) and drop the bytes.
type nullWriter struct{}

func (nullWriter) Write(p []byte) (int, error) { return len(p), nil }

func init() { log.SetOutput(nullWriter{}) }

func register(sc *Scenario) { scenarios[sc.Name] = sc }

// Outcome is what one run produced.
type Outcome struct {
	Violations    []simrt.Violation
	Inconclusive  string // non-empty: harness / sizing trouble, never a verdict
	Tape          []uint32
	Steps         int
	Tasks         int
	Virtual       time.Duration
	Events        int
	Digest        string // digest of the full event log (determinism check)
	HistHash      string // digest of the abstracted observable history
	ILHash        uint64
	Faults        map[string]int
	Probes        map[string]int
	SiteHits      map[int]int
	CaseHits      map[[2]int]int
	ConcurrentSUT int
	MaxReady      int
	Stalls        int
	Adopted       int
	LostControl   int
	HBChecked     int
	Trace         []string // rendered event log (only when wanted)
	Nontrivial    bool
}

// runOne executes one run of sc under the given tape inside a fresh bubble.
func runOne(t *testing.T, sc *Scenario, tape *simrt.Tape, tier string, wantTrace bool) (out Outcome) {
	var s *simrt.Sim
	var res simrt.RunResult
	var oracle func(simrt.RunResult) []simrt.Violation
	finished := false
	leftBehind := false
	func() {
		defer func() {
			if r := recover(); r != nil {
				msg := fmt.Sprint(r)
				if finished && strings.Contains(msg, "deadlock: main bubble goroutine has exited") {
					// goroutines are still blocked inside the bubble: expected after an aborted or
					// deadlocked run (already judged), a leak after a run that ended normally
					leftBehind = true
					return
				}
				if !finished {
					out.Inconclusive = "harness panic: " + msg
				}
			}
		}()
		synctest.Test(t, func(t *testing.T) {
			s = simrt.New(tape)
			oracle = sc.Run(s, tier)
			res = s.Run()
			finished = true
		})
	}()
	if s == nil {
		if out.Inconclusive == "" {
			out.Inconclusive = "simulation did not start"
		}
		return
	}
	out.Tape = append([]uint32(nil), tape.Recorded()...)
	out.Steps = s.Steps
	out.Tasks = s.TaskCount()
	out.Events = len(s.Events)
	out.ILHash = s.InterleavingHash()
	out.Faults = s.Faults
	out.Probes = s.Probes
	out.SiteHits = s.SiteHits()
	out.CaseHits = s.CaseHits()
	out.ConcurrentSUT = s.ConcurrentSUT
	out.MaxReady = s.MaxReady
	out.Stalls = s.Stalls
	out.Adopted = s.Adopted
	out.LostControl = s.LostControl
	out.HBChecked = s.HBChecked()
	if n := len(s.Events); n > 0 {
		out.Virtual = s.Events[n-1].T
	}
	if !finished {
		return
	}
	switch {
	case res.StepBudget:
		out.Inconclusive = fmt.Sprintf("step budget (%d) exhausted while the clock still moved: scenario sizing", s.MaxSteps)
	case res.VirtBudget:
		out.Inconclusive = "virtual-time budget exhausted: scenario sizing"
	}
	if s.LostControl > 0 {
		out.Inconclusive = fmt.Sprintf("lost control %d times: a blocking operation the instrumenter does not know", s.LostControl)
	}
	vs := s.Violations()
	if res.Deadlock {
		vs = append(vs, simrt.Violation{Rule: "deadlock", Msg: "no task can run and no timer is pending; blocked: " + strings.Join(res.Blocked, "; ")})
	}
	if res.Livelock {
		vs = append(vs, simrt.Violation{Rule: "livelock", Msg: fmt.Sprintf("%d scheduler steps without the clock moving; tasks: %s", s.LivelockSteps, strings.Join(res.Blocked, "; "))})
	}
	// Goroutines still parked when everything has returned are a violation only where a
	// property says so: C11 ("leaving no goroutine behind"). The other statements are silent
	// about it (a server may keep idle workers of a pool parked after Serve has returned), so
	// there it is recorded as a reach probe only.
	leakMatters := sc.Property == "C11" || sc.Property == "selftest"
	if leftBehind && !leakMatters && !res.Aborted && !res.Deadlock && !res.Livelock {
		if out.Probes == nil {
			out.Probes = map[string]int{}
		}
		out.Probes["goroutines-still-parked-at-end-of-run (not judged for this property)"]++
	}
	if leftBehind && leakMatters && !res.Aborted && !res.Deadlock && !res.Livelock && !res.StepBudget && !res.VirtBudget {
		vs = append(vs, simrt.Violation{Rule: "goroutine-leak", Msg: fmt.Sprintf("every call, Close and Serve of the run has returned and every harness task has finished, but goroutines are still blocked inside the simulation (testing/synctest: blocked goroutines remain); goroutines not started by the scheduler that reached instrumented code: %d", s.Adopted)})
	}
	if oracle != nil && out.Inconclusive == "" && !res.Aborted {
		vs = append(vs, oracle(res)...)
	}
	out.Violations = dedupe(vs)
	out.Digest, out.HistHash = digests(s.Events)
	out.Nontrivial = s.ConcurrentSUT > 0 || len(s.Faults) > 0
	if wantTrace {
		out.Trace = renderTrace(s.Events)
	}
	return
}

func dedupe(vs []simrt.Violation) []simrt.Violation {
	seen := map[string]bool{}
	var out []simrt.Violation
	for _, v := range vs {
		k := v.Rule + "\x00" + v.Msg
		if !seen[k] {
			seen[k] = true
			out = append(out, v)
		}
	}
	return out
}

// digests hashes the full event log (every field except payload pointers) and
// an abstraction of it (kinds, calls and strings, without sequence numbers).
func digests(evs []simrt.Event) (full, hist string) {
	hf := sha256.New()
	hh := sha256.New()
	for _, e := range evs {
		fmt.Fprintf(hf, "%d|%d|%d|%s|%d|%d|%s\n", e.Seq, e.T, e.Task, e.Kind, e.Call, e.N, e.S)
		fmt.Fprintf(hh, "%s|%d|%d|%s\n", e.Kind, e.Call, e.N, e.S)
	}
	return hex.EncodeToString(hf.Sum(nil))[:16], hex.EncodeToString(hh.Sum(nil))[:16]
}

func renderTrace(evs []simrt.Event) []string {
	out := make([]string, 0, len(evs))
	for _, e := range evs {
		out = append(out, fmt.Sprintf("#%d t=%v T%d %s call=%d n=%d %s", e.Seq, e.T, e.Task, e.Kind, e.Call, e.N, e.S))
	}
	return out
}

func sortedKeys(m map[string]int) []string {
	ks := make([]string, 0, len(m))
	for k := range m {
		ks = append(ks, k)
	}
	sort.Strings(ks)
	return ks
}

// pickPolicy draws the scheduling policy of a run (search mode only; a replayed
// tape carries the resulting choices): biased random walks with different
// context-switch rates, or PCT with 1–3 priority change points.
func pickPolicy(s *simrt.Sim) string {
	t := s.Tape()
	switch t.Weighted(3, 2, 1, 2) {
	case 0:
		s.SwitchNum, s.SwitchDen = 1, 4
		return "random-1/4"
	case 1:
		s.SwitchNum, s.SwitchDen = 1, 2
		return "random-1/2"
	case 2:
		s.SwitchNum, s.SwitchDen = 1, 20
		return "random-1/20"
	}
	s.PCTDepth = 1 + t.Choose(3)
	return "pct"
}
