//go:build go1.25

package zzsimharness

import (
	"bytes"
	"context"
	"encoding/binary"
	"errors"
	"fmt"
	"net"
	"strings"
	"time"

	"github.com/insomniacslk/dhcp/dhcpv6"
	"github.com/insomniacslk/dhcp/dhcpv6/nclient6"
	"github.com/insomniacslk/dhcp/dhcpv6/server6"
	"github.com/insomniacslk/dhcp/iana"
	simrt "github.com/insomniacslk/dhcp/zzsimrt"
)

// Scenario "exchange" for DHCPv6 (DESIGN.md §4.5): one real nclient6 client,
// 0–3 real server6 servers with scripted handlers, a faulty network.

// ---- independent reader for the client's transmissions

type msg6 struct {
	typ  byte
	xid  uint32
	opts map[uint16][][]byte // every occurrence, in order
}

func parseMsg6(b []byte) (msg6, bool) {
	var m msg6
	if len(b) < 4 {
		return m, false
	}
	m.typ = b[0]
	m.xid = uint32(b[1])<<16 | uint32(b[2])<<8 | uint32(b[3])
	m.opts = map[uint16][][]byte{}
	for i := 4; i < len(b); {
		if i+4 > len(b) {
			return m, false
		}
		c := binary.BigEndian.Uint16(b[i:])
		l := int(binary.BigEndian.Uint16(b[i+2:]))
		if i+4+l > len(b) {
			return m, false
		}
		m.opts[c] = append(m.opts[c], b[i+4:i+4+l])
		i += 4 + l
	}
	return m, true
}

func (m msg6) first(code uint16) []byte {
	if v := m.opts[code]; len(v) > 0 {
		return v[0]
	}
	return nil
}

type ex6Rx struct {
	corrupt bool
	trig    int // type of the client message the server was answering (0: unknown)
	seq     int
	doneSeq int
	t       time.Duration
	bytes   []byte
	m       *dhcpv6.Message
	canon   []byte
}

func xidOf6(m *dhcpv6.Message) uint32 {
	return uint32(m.TransactionID[0])<<16 | uint32(m.TransactionID[1])<<8 | uint32(m.TransactionID[2])
}

type ex6Tx struct {
	seq int
	t   time.Duration
	raw []byte
	p   msg6
	ok  bool
}

type ex6Op struct {
	writeFailed bool // a WriteTo of this operation failed (expired write deadline)
	kind           string // solicit, request, rapid
	invSeq, retSeq int
	invT, retT     time.Duration
	returned       bool
	err            error
	adv            *dhcpv6.Message // input of request
	ret            *dhcpv6.Message
	txs            []*ex6Tx
}

type ex6Server struct {
	id      int
	duid    dhcpv6.DUID
	conn    *Conn
	closeFn func() error
}

type ex6State struct {
	s              *simrt.Sim
	tape           *simrt.Tape
	net            *Net
	T              time.Duration
	tries          int
	stall          bool
	xidSol, xidReq uint32
	forced         bool // the harness chooses the transaction ids (else: the library's own random ones)
	xnames         map[uint32]string
	trig           map[int]int              // server handler task -> type of the client message it is answering
	sentTypes      map[uint32]map[byte]bool // transaction id -> message types the client really sent with it

	cconn   *Conn
	servers []*ex6Server
	rx      []*ex6Rx
	ops     []*ex6Op
	cur     *ex6Op
	newErr  error

	lossNum, dupNum, corruptNum int
}

var siteEx6Main = simrt.HSite("ex6.main")

func ex6Scenario() *Scenario {
	return &Scenario{Name: "c13-v6", Property: "C13", Run: func(s *simrt.Sim, tier string) func(simrt.RunResult) []simrt.Violation {
		t := s.Tape()
		st := &ex6State{s: s, tape: t}
		s.EnableHB()
		st.stall = t.Coin(1, 5)
		s.AllowStall = st.stall
		if st.stall {
			s.StallPermille = 10
		}
		s.Probe("policy-" + pickPolicy(s))
		st.start()
		return func(res simrt.RunResult) []simrt.Violation {
			v := &vio{}
			if st.newErr != nil {
				v.add("harness", "setup failed: %v", st.newErr)
				return v.list
			}
			st.oracle(v)
			return v.list
		}
	}}
}

func (st *ex6State) mods() []dhcpv6.Modifier {
	// One id per message type, as without a modifier SOLICIT and REQUEST ids differ.
	// (No client-id modifier: it would override the advertised client id in the REQUEST.
	// The DUID-LLT time NewSolicit stamps comes from the bubble clock and is deterministic.)
	if !st.forced {
		return nil
	}
	return []dhcpv6.Modifier{func(d dhcpv6.DHCPv6) {
		if m, ok := d.(*dhcpv6.Message); ok {
			switch m.MessageType {
			case dhcpv6.MessageTypeSolicit:
				m.TransactionID = xid6(st.xidSol)
			case dhcpv6.MessageTypeRequest:
				m.TransactionID = xid6(st.xidReq)
			}
		}
	}}
}

func (st *ex6State) start() {
	s, t := st.s, st.tape
	st.T = pick(t, ms(50), ms(200))
	st.tries = 1 + t.Weighted(2, 3, 2)
	st.forced = t.Coin(1, 2)
	st.xnames = map[uint32]string{}
	st.trig = map[int]int{}
	st.sentTypes = map[uint32]map[byte]bool{}
	st.xidSol = 0x5a0000 | uint32(t.Choose(4))
	st.xidReq = 0xa50000 | uint32(t.Choose(4))
	if t.Coin(1, 10) {
		st.xidReq = st.xidSol // a client that reuses its id across message types
	}
	nserv := t.Weighted(1, 4, 3, 2)
	st.lossNum = swarmRate(t, 5, 25)
	st.dupNum = swarmRate(t, 5, 25)
	st.corruptNum = swarmRate(t, 3, 15)
	workload := t.Weighted(3, 3)
	s.GoTask("main", func() {
		st.net = NewNet(s)
		st.cconn = NewConn(s, "cconn", &net.UDPAddr{IP: net.ParseIP("fe80::1"), Port: 546})
		st.cconn.OnWrite = func(b []byte, to net.Addr) { st.clientTx(b) }
		st.cconn.OnWriteFail = func([]byte, net.Addr) {
			s.Fault("write-deadline-expired")
			if st.cur != nil {
				st.cur.writeFailed = true
			}
		}
		st.cconn.OnRead = func(d dgram, n int) {
			if len(d.b) <= 1500 {
				n = len(d.b) // judged as on the wire (see clientcore.go onRead)
			}
			st.clientRx(append([]byte(nil), d.b[:n]...), d.serial, strings.HasSuffix(d.tag, "+corrupt"))
		}
		st.cconn.OnReadEnter = func() {
			if n := len(st.rx); n > 0 && st.rx[n-1].doneSeq == 0 {
				st.rx[n-1].doneSeq = s.Seq()
			}
		}
		s.EnterSUT()
		copts := []nclient6.ClientOpt{nclient6.WithTimeout(st.T), nclient6.WithRetry(st.tries)}
		if t.Coin(1, 3) {
			copts = append(copts, nclient6.WithLogDroppedPackets())
		}
		cl, err := nclient6.NewWithConn(st.cconn, clientHW, copts...)
		s.LeaveSUT()
		if err != nil {
			st.newErr = err
			st.net.Stop(true)
			return
		}
		sj := newJoiner(s, "servers")
		for i := 0; i < nserv; i++ {
			sv := &ex6Server{id: i, duid: &dhcpv6.DUIDLL{HWType: 1, LinkLayerAddr: net.HardwareAddr{2, 0, 0, 0, 6, byte(1 + i)}}}
			sv.conn = NewConn(s, fmt.Sprintf("s%dconn", i), &net.UDPAddr{IP: net.ParseIP(fmt.Sprintf("fe80::5:%d", i)), Port: 547})
			sv.conn.OnWrite = func(b []byte, to net.Addr) { st.toClient(sv, b) }
			srv, err := server6.NewServer("", nil, st.handler(sv), server6.WithConn(sv.conn))
			if err != nil {
				st.newErr = err
				continue
			}
			sv.closeFn = srv.Close
			st.servers = append(st.servers, sv)
			sj.Go(fmt.Sprintf("serve%d", i), func() {
				s.EnterSUT()
				srv.Serve()
				s.LeaveSUT()
			})
		}
		cj := newJoiner(s, "client")
		cj.Go("client", func() { st.workload(cl, workload) })
		cj.Wait()
		s.EnterSUT()
		cl.Close()
		s.LeaveSUT()
		for _, sv := range st.servers {
			s.EnterSUT()
			sv.closeFn()
			s.LeaveSUT()
		}
		sj.Wait()
		st.net.Stop(true)
	})
}

// xn renders a transaction id by order of first appearance, so that the event
// log does not depend on the library's random ids.
func (st *ex6State) xn(x uint32) string {
	n, ok := st.xnames[x]
	if !ok {
		n = fmt.Sprintf("x%d", len(st.xnames))
		st.xnames[x] = n
	}
	return n
}

func (st *ex6State) op(kind string, fn func(o *ex6Op)) *ex6Op {
	s := st.s
	o := &ex6Op{kind: kind, invT: s.Now()}
	st.ops = append(st.ops, o)
	st.cur = o
	o.invSeq = s.Ev("op.invoke", len(st.ops)-1, 0, kind, nil)
	s.EnterSUT()
	fn(o)
	s.LeaveSUT()
	o.retT = s.Now()
	o.returned = true
	o.retSeq = s.Ev("op.return", len(st.ops)-1, 0, fmt.Sprintf("%s err=%s", kind, logErr(o.err)), nil)
	st.cur = nil
	return o
}

func (st *ex6State) workload(cl *nclient6.Client, w int) {
	st.round(cl, w, true)
	if st.tape.Coin(1, 4) {
		// a second acquisition on the same client object
		st.s.Probe("second-acquisition-on-the-same-client")
		st.round(cl, st.tape.Choose(2), false)
	}
}

func (st *ex6State) round(cl *nclient6.Client, w int, first bool) {
	t := st.tape
	ctx := context.Background()
	// phase of the wall clock: some exchanges start just before a whole second
	if first {
		sleep(pick(t, 0, 0, 0, ms(995), ms(999), ms(1000)-st.T/2), siteEx6Main)
	} else {
		sleep(pick(t, 0, ms(1), st.T), siteEx6Main)
	}
	if w == 0 {
		a := st.op("solicit", func(o *ex6Op) { o.ret, o.err = cl.Solicit(ctx, st.mods()...) })
		if a.err != nil || a.ret == nil {
			return
		}
		sleep(pick(t, 0, 0, ms(1), st.T/2, ms(1100)), siteEx6Main) // ms(1100): the application pauses across a wall-clock second
		st.op("request", func(o *ex6Op) {
			o.adv = a.ret
			o.ret, o.err = cl.Request(ctx, a.ret, st.mods()...)
		})
		return
	}
	st.op("rapid", func(o *ex6Op) { o.ret, o.err = cl.RapidSolicit(ctx, st.mods()...) })
}

func (st *ex6State) faultCopies() int {
	t, s := st.tape, st.s
	if st.lossNum > 0 && t.Coin(st.lossNum, 100) {
		s.Fault("loss")
		return 0
	}
	if st.dupNum > 0 && t.Coin(st.dupNum, 100) {
		s.Fault("duplicate")
		return 2
	}
	return 1
}

func (st *ex6State) maybeCorrupt(b []byte) ([]byte, bool) {
	t := st.tape
	if st.corruptNum > 0 && len(b) > 0 && t.Coin(st.corruptNum, 100) {
		c := append([]byte(nil), b...)
		c[t.Choose(len(c))] ^= 1 << uint(t.Choose(8))
		st.s.Fault("corrupt")
		return c, true
	}
	return b, false
}

func (st *ex6State) clientTx(b []byte) {
	s, t := st.s, st.tape
	tx := &ex6Tx{t: s.Now(), raw: b}
	tx.p, tx.ok = parseMsg6(b)
	if tx.ok {
		if st.sentTypes[tx.p.xid] == nil {
			st.sentTypes[tx.p.xid] = map[byte]bool{}
		}
		st.sentTypes[tx.p.xid][tx.p.typ] = true
	}
	tx.seq = s.Ev("tx", -1, int64(tx.p.typ), "xid="+st.xn(tx.p.xid), nil)
	if st.cur != nil {
		st.cur.txs = append(st.cur.txs, tx)
	} else {
		s.Violate("X-unsolicited-tx", "the client transmitted outside any call")
	}
	for _, sv := range st.servers {
		sv := sv
		for c := st.faultCopies(); c > 0; c-- {
			pb, _ := st.maybeCorrupt(b)
			d := pick(t, 0, 0, ms(1), ms(2), st.T/4)
			st.net.After(d, func() {
				s.Stimulus()
				sv.conn.Deliver(dgram{b: pb, from: &net.UDPAddr{IP: net.ParseIP("fe80::1"), Port: 546, Zone: "eth0"}, tag: "client"})
			})
		}
	}
}

func (st *ex6State) toClient(sv *ex6Server, b []byte) {
	s, t := st.s, st.tape
	trig := st.trig[s.CurTask()]
	s.Ev("server.tx", sv.id, int64(len(b)), "", nil)
	for c := st.faultCopies(); c > 0; c-- {
		pb, corrupted := st.maybeCorrupt(b)
		d := pick(t, 0, 0, ms(1), ms(3), st.T/2, st.T-ms(1), st.T, st.T+ms(1), 2*st.T)
		tag := fmt.Sprintf("s%d", sv.id)
		if corrupted {
			tag += "+corrupt"
		}
		st.net.After(d, func() {
			s.Stimulus()
			st.cconn.Deliver(dgram{b: pb, from: sv.conn.Local, tag: tag, serial: trig})
		})
	}
}

func (st *ex6State) clientRx(b []byte, trig int, corrupted bool) {
	s := st.s
	r := &ex6Rx{t: s.Now(), bytes: b, trig: trig, corrupt: corrupted}
	if m, err := dhcpv6.MessageFromBytes(append([]byte(nil), b...)); err == nil {
		r.m = m
		r.canon = m.ToBytes()
	}
	desc := "undecodable"
	if r.m != nil {
		desc = fmt.Sprintf("xid=%s type=%s", st.xn(xidOf6(r.m)), r.m.MessageType)
	}
	r.seq = s.Ev("rx", -1, int64(len(b)), desc, nil)
	st.rx = append(st.rx, r)
}

func (st *ex6State) handler(sv *ex6Server) server6.Handler {
	s, t := st.s, st.tape
	return func(conn net.PacketConn, peer net.Addr, d dhcpv6.DHCPv6) {
		m, ok := d.(*dhcpv6.Message)
		if !ok {
			return
		}
		s.Ev("server.rx", sv.id, int64(m.MessageType), "xid="+st.xn(xidOf6(m)), nil)
		// What the server is answering, as far as the oracle may rely on it: only if the
		// client really sent a message of this type with this id (the network may have
		// flipped the type byte or the id on the way to the server).
		st.trig[s.CurTask()] = 0
		if st.sentTypes[xidOf6(m)][byte(m.MessageType)] {
			st.trig[s.CurTask()] = int(m.MessageType)
		}
		if m.MessageType != dhcpv6.MessageTypeSolicit && m.MessageType != dhcpv6.MessageTypeRequest {
			return
		}
		if m.MessageType == dhcpv6.MessageTypeRequest {
			if sid := m.Options.ServerID(); sid != nil && !sid.Equal(sv.duid) && t.Coin(3, 4) {
				return // not for this server
			}
		}
		n := t.Weighted(1, 5, 2, 1)
		for i := 0; i < n; i++ {
			var rep *dhcpv6.Message
			inf := time.Duration(0xffffffff) * time.Second // "infinity" on the wire
			ia := &dhcpv6.OptIANA{IaId: [4]byte{0xaa, 0xbb, 0x00, 0x01}, T1: time.Hour, T2: 2 * time.Hour}
			ip := net.ParseIP(fmt.Sprintf("2001:db8:%d::%d", sv.id, 1+t.Choose(9)))
			switch t.Weighted(10, 1, 1, 1) {
			case 1:
				ip = net.ParseIP(fmt.Sprintf("::ffff:192.0.2.%d", 1+t.Choose(9))) // an IPv4-mapped address: 16 bytes on the wire like any other
				s.Fault("reply-ipv4-mapped-address")
			case 2:
				ip = net.ParseIP(fmt.Sprintf("fd00::%d:%d", sv.id, 1+t.Choose(9)))
			case 3:
				ip = net.IPv6unspecified
			}
			addr := &dhcpv6.OptIAAddress{IPv6Addr: ip, PreferredLifetime: time.Hour, ValidLifetime: 2 * time.Hour}
			switch t.Weighted(6, 1, 1) {
			case 1:
				ia.T1, ia.T2 = inf, inf
				s.Fault("reply-infinite-lifetime")
			case 2:
				addr.PreferredLifetime, addr.ValidLifetime = inf, inf
				s.Fault("reply-infinite-lifetime")
			}
			if t.Coin(1, 6) {
				// a per-address status code: an option nested inside the IA address
				addr.Options.Add(&dhcpv6.OptStatusCode{StatusCode: iana.StatusSuccess, StatusMessage: "addr ok"})
				s.Fault("reply-option-inside-ia-address")
			}
			ia.Options.Add(addr)
			if t.Coin(1, 8) {
				ia.Options.Add(&dhcpv6.OptStatusCode{StatusCode: iana.StatusNoAddrsAvail, StatusMessage: "none left"})
				s.Fault("reply-status-in-ia")
			}
			typ := dhcpv6.MessageTypeAdvertise
			if m.MessageType == dhcpv6.MessageTypeRequest {
				typ = dhcpv6.MessageTypeReply
			} else if m.GetOneOption(dhcpv6.OptionRapidCommit) != nil && t.Coin(1, 2) {
				typ = dhcpv6.MessageTypeReply
			}
			switch t.Weighted(10, 1, 1) {
			case 1:
				if typ == dhcpv6.MessageTypeAdvertise {
					typ = dhcpv6.MessageTypeReply
				} else {
					typ = dhcpv6.MessageTypeAdvertise
				}
				s.Fault("reply-wrong-type")
			case 2:
				typ = dhcpv6.MessageTypeReconfigure
				s.Fault("reply-wrong-type")
			}
			rep = &dhcpv6.Message{MessageType: typ, TransactionID: m.TransactionID}
			if cid := m.GetOneOption(dhcpv6.OptionClientID); cid != nil && !t.Coin(1, 12) {
				rep.AddOption(cid)
			}
			if !t.Coin(1, 12) {
				rep.AddOption(dhcpv6.OptServerID(sv.duid))
			}
			if !t.Coin(1, 12) {
				rep.AddOption(ia)
				if t.Coin(1, 4) {
					ia2 := &dhcpv6.OptIANA{IaId: [4]byte{0xaa, 0xbb, 0x00, 0x02}, T1: time.Minute, T2: time.Hour}
					rep.AddOption(ia2)
				}
			}
			if t.Coin(1, 3) {
				pd := &dhcpv6.OptIAPD{IaId: [4]byte{0xcc, 0, 0, byte(1 + t.Choose(2))}, T1: time.Hour, T2: 2 * time.Hour}
				rep.AddOption(pd)
			}
			if t.Coin(1, 8) {
				rep.AddOption(&dhcpv6.OptStatusCode{StatusCode: iana.StatusCode(1 + t.Choose(5)), StatusMessage: "status"})
				s.Fault("reply-status-top-level")
			}
			if typ == dhcpv6.MessageTypeReply && m.MessageType == dhcpv6.MessageTypeSolicit {
				rep.AddOption(&dhcpv6.OptionGeneric{OptionCode: dhcpv6.OptionRapidCommit})
			}
			switch t.Weighted(10, 1) {
			case 1:
				rep.TransactionID[2] ^= 0x40
				s.Fault("reply-wrong-xid")
			}
			b := fixIAAddr6(rep.ToBytes(), ip)
			if t.Coin(1, 20) {
				b = b[:t.Choose(len(b))]
				s.Fault("reply-truncated")
			}
			s.Fault("reply-" + typ.String())
			conn.WriteTo(b, peer)
		}
	}
}

// advertiseUnusable reports whether a failed exchange that sent no REQUEST had an
// ADVERTISE in hand that cannot be turned into one: the statement wants the advertised
// client id, server id and IA_NA carried into the REQUEST, so an ADVERTISE lacking one of
// them is the servers' doing and whatever error the client reports for it is not judged
// (neither its type nor its text: an earlier version matched the builder's message, which
// made a reworded refusal a false alarm). For Request() the advertise is the caller's
// argument; for RapidSolicit() it is internal, and the refusal is believed only if an
// ADVERTISE delivered before the operation returned really lacks one of the three on the wire
// (read with the harness's own TLV reader).
func (st *ex6State) advertiseUnusable(o *ex6Op) bool {
	if o.adv != nil {
		return o.adv.GetOneOption(dhcpv6.OptionClientID) == nil || o.adv.GetOneOption(dhcpv6.OptionServerID) == nil || o.adv.GetOneOption(dhcpv6.OptionIANA) == nil
	}
	for _, r := range st.rx {
		if (o.returned && r.seq > o.retSeq) || len(r.bytes) < 4 || r.bytes[0] != 2 {
			continue
		}
		opts, ok := splitV6Opts(r.bytes[4:])
		if !ok {
			continue
		}
		have := map[int]bool{}
		for _, x := range opts {
			have[x.code] = true
		}
		if !have[1] || !have[2] || !have[3] {
			return true
		}
	}
	return false
}

// fixIAAddr6 writes the address the scripted server means to hand out into every IA
// address option of the IA_NAs of an encoded reply, with the harness's own TLV writer:
// what is on the wire must not depend on how the library under test encodes an address.
func fixIAAddr6(b []byte, ip net.IP) []byte {
	if len(b) < 4 || ip.To16() == nil {
		return b
	}
	opts, ok := splitV6Opts(b[4:])
	if !ok {
		return b
	}
	changed := false
	for i, o := range opts {
		if o.code != 3 || len(o.val) < 12 {
			continue
		}
		sub, ok := splitV6Opts(o.val[12:])
		if !ok {
			continue
		}
		for j, so := range sub {
			if so.code == 5 && len(so.val) >= 24 {
				copy(sub[j].val[0:16], ip.To16())
				changed = true
			}
		}
		opts[i].val = append(append([]byte(nil), o.val[:12]...), joinV6Opts(sub)...)
	}
	if !changed {
		return b
	}
	return append(append([]byte(nil), b[:4]...), joinV6Opts(opts)...)
}

// ---------------------------------------------------------------- oracle

func (st *ex6State) findSource(m *dhcpv6.Message, notDoneBefore, beforeSeq int) *ex6Rx {
	if m == nil {
		return nil
	}
	want := m.ToBytes()
	for _, r := range st.rx {
		if (r.doneSeq == 0 || r.doneSeq >= notDoneBefore) && r.seq < beforeSeq && r.canon != nil && bytes.Equal(r.canon, want) {
			return r
		}
	}
	return nil
}

func lastTxBefore6(txs []*ex6Tx, seq int) *ex6Tx {
	var last *ex6Tx
	for _, tx := range txs {
		if tx.seq < seq {
			last = tx
		}
	}
	return last
}

// checkPairing: the message a phase returned is a delivered datagram bearing the
// phase's transaction id, acceptable to the phase, the first such of its try, and
// (reqPhase) not a server's answer to the SOLICIT.
func (st *ex6State) checkPairing(v *vio, o *ex6Op, name string, got *dhcpv6.Message, xid uint32, txs []*ex6Tx, acceptable func(*dhcpv6.Message) bool, before int, reqPhase bool, solXid uint32) {
	if got == nil {
		v.add("Y-nil", "%s: returned (nil, nil)", name)
		return
	}
	if xidOf6(got) != xid {
		v.add("Y-xid", "%s: returned a message with transaction id %s, want %s", name, st.xn(xidOf6(got)), st.xn(xid))
	}
	if !acceptable(got) {
		v.add("Y-type", "%s: returned a %s, which this call must not accept", name, got.MessageType)
	}
	src := st.findSource(got, 0, before) // when it arrived is C10's clause, not C13's
	if src == nil {
		v.add("Y-provenance", "%s: the returned %s is not the decoding of any datagram delivered to the client before the call returned", name, got.MessageType)
		return
	}
	if reqPhase && src.trig == int(dhcpv6.MessageTypeSolicit) && !src.corrupt && !(st.forced && st.xidReq == st.xidSol) {
		// Unless the harness itself made the two ids equal (or the network flipped a bit
		// of the id), an answer to the SOLICIT can only bear the REQUEST's id if the
		// client reused the SOLICIT's id.
		v.add("Y-mispaired", "%s: the REQUEST was completed by a server's answer to the SOLICIT (a %s delivered at #%d): REQUEST and SOLICIT share transaction id %s", name, got.MessageType, src.seq, st.xn(solXid))
	}
	tx := lastTxBefore6(txs, before)
	if tx == nil {
		return
	}
	for _, r := range st.rx {
		if r.seq > tx.seq && r.seq < src.seq && r.m != nil && xidOf6(r.m) == xid && acceptable(r.m) {
			v.add("Y-not-first", "%s: returned the %s delivered at #%d although an acceptable %s with the same transaction id was delivered earlier in the same try, at #%d", name, got.MessageType, src.seq, r.m.MessageType, r.seq)
			break
		}
	}
}

func (st *ex6State) requestTxProblems(name string, adv *dhcpv6.Message, txs []*ex6Tx) (out []string) {
	add := func(rule, format string, a ...interface{}) { out = append(out, rule+"|"+fmt.Sprintf(format, a...)) }
	// what the ADVERTISE carried, as option payload bytes
	cidO := adv.GetOneOption(dhcpv6.OptionClientID)
	sidO := adv.GetOneOption(dhcpv6.OptionServerID)
	ianaO := adv.Options.OneIANA()
	iapdO := adv.GetOneOption(dhcpv6.OptionIAPD)
	var cid, sid, iaNA, iapd []byte // what the ADVERTISE carried, as option payload bytes (nil: absent)
	if cidO != nil {
		cid = cidO.ToBytes()
	}
	if sidO != nil {
		sid = sidO.ToBytes()
	}
	if ianaO != nil {
		iaNA = ianaO.ToBytes()
	}
	if iapdO != nil {
		iapd = iapdO.ToBytes()
	}
	// Prefer the bytes as they were on the wire, read with the independent TLV reader: the
	// library's own re-encoding of what it decoded cannot reveal a lossy decode/encode pair.
	// (Not for datagrams the network corrupted: those need not be canonical.)
	if src := st.findSource(adv, 0, 1<<30); src != nil && !src.corrupt {
		if raw, ok := parseMsg6(src.bytes); ok {
			pickRaw := func(cur []byte, code uint16) []byte {
				if cur != nil && raw.first(code) != nil {
					return raw.first(code)
				}
				return cur
			}
			cid, sid, iaNA, iapd = pickRaw(cid, 1), pickRaw(sid, 2), pickRaw(iaNA, 3), pickRaw(iapd, 25)
		}
	}
	for i, tx := range txs {
		if !tx.ok {
			add("Y-req-malformed", "%s: REQUEST %d is not a well-formed DHCPv6 message", name, i+1)
			continue
		}
		p := tx.p
		if p.typ != 3 {
			continue
		}
		if st.forced && p.xid != st.xidReq {
			add("Y-req-xid", "%s: REQUEST %d has transaction id %06x, want %06x", name, i+1, p.xid, st.xidReq)
		}
		if p.xid != txs[0].p.xid {
			add("Y-req-xid-changed", "%s: REQUEST %d has another transaction id than REQUEST 1", name, i+1)
		}
		if cid != nil && !bytes.Equal(p.first(1), cid) {
			add("Y-req-clientid", "%s: REQUEST %d does not carry the advertised client id", name, i+1)
		}
		if sid != nil && !bytes.Equal(p.first(2), sid) {
			add("Y-req-serverid", "%s: REQUEST %d does not carry the advertised server id", name, i+1)
		}
		if iaNA != nil && !bytes.Equal(p.first(3), iaNA) {
			add("Y-req-iana", "%s: REQUEST %d does not carry the advertised (first) IA_NA", name, i+1)
		}
		if iapd != nil && !bytes.Equal(p.first(25), iapd) {
			add("Y-req-iapd", "%s: REQUEST %d does not carry the advertised IA_PD", name, i+1)
		}
	}
	return out
}

func (st *ex6State) checkRequestTx(v *vio, name string, adv *dhcpv6.Message, txs []*ex6Tx) {
	for _, w := range st.requestTxProblems(name, adv, txs) {
		i := bytes.IndexByte([]byte(w), '|')
		v.add(w[:i], "%s", w[i+1:])
	}
}

func splitTxs6(o *ex6Op) (sol, req, other []*ex6Tx) {
	for _, tx := range o.txs {
		switch tx.p.typ {
		case 1:
			sol = append(sol, tx)
		case 3:
			req = append(req, tx)
		default:
			other = append(other, tx)
		}
	}
	return
}

func isType6(ts ...dhcpv6.MessageType) func(*dhcpv6.Message) bool {
	return func(m *dhcpv6.Message) bool {
		for _, t := range ts {
			if m.MessageType == t {
				return true
			}
		}
		return false
	}
}

func anyType6(*dhcpv6.Message) bool { return true }

func (st *ex6State) oracle(v *vio) {
	var lastSolXid uint32
	for i, o := range st.ops {
		name := fmt.Sprintf("op %d (%s)", i, o.kind)
		sol, req, other := splitTxs6(o)
		switch {
		case !o.returned:
		case o.err == nil && o.kind == "rapid" && len(req) == 0:
			st.s.Probe("op-rapid-reply-returned-directly")
		case o.err == nil && o.kind == "rapid":
			st.s.Probe("op-rapid-via-advertise-and-request")
		case o.err == nil:
			st.s.Probe("op-" + o.kind + "-succeeded")
		default:
			st.s.Probe("op-" + o.kind + "-failed")
		}
		if len(other) > 0 {
			v.add("Y-extra-tx", "%s: transmitted %d message(s) that are neither SOLICIT nor REQUEST", name, len(other))
		}
		// a failing exchange fails because nothing acceptable arrived: no-response error, after
		// the configured number of transmissions of the message it was waiting on
		if o.returned && o.err != nil && len(sol)+len(req) > 0 && !o.writeFailed {
			phase := sol
			if len(req) > 0 {
				phase = req
			}
			if !errors.Is(o.err, nclient6.ErrNoResponse) {
				if len(req) == 0 && st.advertiseUnusable(o) {
					// the advertise could not be turned into a request because it lacks the client id,
					// the server id or an IA_NA: the servers' doing, not the client's
				} else {
					v.add("Y-fail-error", "%s: failed with %v, want the no-response error (nobody cancelled anything and no socket operation failed)", name, o.err)
				}
			} else {
				// one-sided: see X-fail-count
				byDatagram := false // see X-fail-count
				for _, r := range st.rx {
					if r.t == o.retT && r.seq < o.retSeq {
						byDatagram = true
					}
				}
				if !byDatagram {
					st.s.Probe("exchange-gave-up-at-an-instant-without-a-delivery")
				} else if len(phase) < st.tries {
					v.add("Y-fail-count", "%s: gave up after %d transmission(s) of its last message, configured tries = %d", name, len(phase), st.tries)
				}
				if want := st.T * time.Duration((int64(1)<<uint(st.tries))-1); byDatagram && !st.stall && o.retT-phase[0].t < want {
					v.add("Y-fail-duration", "%s: gave up %v after first transmitting its last message, before the configured schedule ends at %v (T=%v, tries=%d)", name, o.retT-phase[0].t, want, st.T, st.tries)
				}
			}
		}
		// the transaction ids this call used on the wire
		var xs, xr uint32
		if len(sol) > 0 {
			xs = sol[0].p.xid
			lastSolXid = xs
		} else {
			xs = lastSolXid
		}
		if len(req) > 0 {
			xr = req[0].p.xid
		}
		for j, tx := range sol {
			if !tx.ok {
				continue
			}
			if st.forced && tx.p.xid != st.xidSol {
				v.add("Y-sol-xid", "%s: SOLICIT %d has transaction id %06x, want %06x", name, j+1, tx.p.xid, st.xidSol)
			}
			if tx.p.xid != xs {
				v.add("Y-sol-xid-changed", "%s: SOLICIT %d has another transaction id than SOLICIT 1", name, j+1)
			}
		}
		switch o.kind {
		case "solicit":
			if len(req) > 0 {
				v.add("Y-extra-tx", "%s: Solicit transmitted a REQUEST", name)
			}
			if o.returned && o.err == nil {
				st.checkPairing(v, o, name, o.ret, xs, sol, isType6(dhcpv6.MessageTypeAdvertise), o.retSeq, false, xs)
			}
		case "request":
			if len(sol) > 0 {
				v.add("Y-extra-tx", "%s: Request transmitted a SOLICIT", name)
			}
			if o.adv != nil {
				st.checkRequestTx(v, name, o.adv, req)
			}
			if o.returned && o.err == nil {
				st.checkPairing(v, o, name, o.ret, xr, req, anyType6, o.retSeq, true, xs)
			}
		case "rapid":
			for j, tx := range sol {
				if tx.ok && len(tx.p.opts[14]) == 0 {
					v.add("Y-rapid-option", "%s: SOLICIT %d lacks the rapid-commit option", name, j+1)
				}
			}
			if !o.returned {
				break
			}
			if len(req) == 0 {
				// completed (or failed) in the SOLICIT phase: a REPLY is returned directly
				if o.err == nil {
					st.checkPairing(v, o, name, o.ret, xs, sol, isType6(dhcpv6.MessageTypeReply), o.retSeq, false, xs)
				}
				break
			}
			// an ADVERTISE was accepted, then requested: reconstruct which one from the deliveries
			first := req[0]
			tx := lastTxBefore6(sol, first.seq)
			if tx == nil {
				v.add("Y-no-solicit", "%s: REQUEST without a preceding SOLICIT", name)
				break
			}
			var inWin []*ex6Rx          // acceptable answers delivered after the last SOLICIT went out
			var early []*dhcpv6.Message // ADVERTISEs for this transaction the client had taken from the socket before that (a reading-ahead client may still hold them)
			for _, r := range st.rx {
				if r.seq > first.seq || r.m == nil || xidOf6(r.m) != xs {
					continue
				}
				if r.m.MessageType != dhcpv6.MessageTypeAdvertise && r.m.MessageType != dhcpv6.MessageTypeReply {
					continue
				}
				if r.seq > tx.seq {
					inWin = append(inWin, r)
				} else if r.m.MessageType == dhcpv6.MessageTypeAdvertise {
					early = append(early, r.m)
				}
			}
			cands := early
			if len(inWin) > 0 {
				if inWin[0].m.MessageType == dhcpv6.MessageTypeReply {
					if len(early) == 0 {
						v.add("Y-rapid-reply-ignored", "%s: a rapid-commit REPLY (delivered #%d) was the first acceptable answer of the try but the client went on to REQUEST", name, inWin[0].seq)
					}
				} else {
					cands = append([]*dhcpv6.Message{inWin[0].m}, early...)
				}
			}
			if len(cands) == 0 {
				v.add("Y-req-no-advertise", "%s: a REQUEST was transmitted although no ADVERTISE bearing the SOLICIT's transaction id had been delivered", name)
			} else {
				var best []string
				for k, c := range cands {
					w := st.requestTxProblems(name, c, req)
					if len(w) == 0 {
						best = nil
						break
					}
					if k == 0 {
						best = w
					}
				}
				for _, w := range best {
					v.add(w[:bytes.IndexByte([]byte(w), '|')], "%s", w[bytes.IndexByte([]byte(w), '|')+1:])
				}
			}
			if o.err == nil {
				st.checkPairing(v, o, name, o.ret, xr, req, anyType6, o.retSeq, true, xs)
			}
		}
	}
}

func init() { register(ex6Scenario()) }
