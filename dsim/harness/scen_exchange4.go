//go:build go1.25

package zzsimharness

import (
	"bytes"
	"context"
	"encoding/binary"
	"errors"
	"fmt"
	"net"
	"regexp"
	"time"

	"github.com/insomniacslk/dhcp/dhcpv4"
	"github.com/insomniacslk/dhcp/dhcpv4/nclient4"
	"github.com/insomniacslk/dhcp/dhcpv4/server4"
	simrt "github.com/insomniacslk/dhcp/zzsimrt"
	"github.com/mdlayher/packet"
)

// Scenario "exchange" for DHCPv4 (DESIGN.md §4.5): the whole system in one
// process. One real nclient4 client (directly on a simulated socket, or through
// the real raw-frame connection over a simulated link), 0–3 real server4 servers
// whose handlers are scripted from the tape, joined by a faulty network.

// ---- independent reader for the client's transmissions (not the library)

type bootp struct {
	op     byte
	hlen   byte
	xid    uint32
	flags  uint16
	ciaddr [4]byte
	yiaddr [4]byte
	chaddr []byte
	opts   map[byte][]byte
}

func parseBootp(b []byte) (bootp, bool) {
	var p bootp
	if len(b) < 240 || !bytes.Equal(b[236:240], []byte{99, 130, 83, 99}) {
		return p, false
	}
	p.op, p.hlen = b[0], b[2]
	p.xid = binary.BigEndian.Uint32(b[4:8])
	p.flags = binary.BigEndian.Uint16(b[10:12])
	copy(p.ciaddr[:], b[12:16])
	copy(p.yiaddr[:], b[16:20])
	hl := int(p.hlen)
	if hl > 16 {
		hl = 16
	}
	p.chaddr = b[28 : 28+hl]
	p.opts = map[byte][]byte{}
	for i := 240; i < len(b); {
		c := b[i]
		if c == 255 {
			break
		}
		if c == 0 {
			i++
			continue
		}
		if i+1 >= len(b) {
			return p, false
		}
		l := int(b[i+1])
		if i+2+l > len(b) {
			return p, false
		}
		p.opts[c] = append(p.opts[c], b[i+2:i+2+l]...)
		i += 2 + l
	}
	return p, true
}

func (p bootp) typ() int {
	if v := p.opts[53]; len(v) == 1 {
		return int(v[0])
	}
	return 0
}

// ---- records

type ex4Rx struct {
	seq     int
	doneSeq int // event seq at which the client's reader came back for the next datagram (0: never)
	t       time.Duration
	bytes   []byte
	m       *dhcpv4.DHCPv4 // library decoding of a private copy (nil: undecodable)
	canon   []byte
}

// eligible: a decodable BOOTREPLY for this client's hardware address and transaction, the
// address fields read from the wire by the independent header reader (not through the
// decoder under test).
func (r *ex4Rx) eligible(xid dhcpv4.TransactionID) bool {
	if r.m == nil || len(r.bytes) < 44 {
		return false
	}
	b := r.bytes
	hl := int(b[2])
	if hl > 16 {
		hl = 16 // the chaddr field has 16 bytes: a larger hlen cannot mean more than the field holds
	}
	return b[0] == 2 && hl == len(ex4ClientHW) && bytes.Equal(b[28:28+len(ex4ClientHW)], ex4ClientHW) && bytes.Equal(b[4:8], xid[:])
}

type ex4Tx struct {
	seq  int
	t    time.Duration
	raw  []byte
	p    bootp
	ok   bool
	dest *net.UDPAddr
}

type ex4Op struct {
	writeFailed bool // a WriteTo of this operation failed (expired write deadline)
	kind           string // request, discover, requestFromOffer, renew, release
	invSeq, retSeq int
	invT, retT     time.Duration
	returned       bool
	err            error
	offer          *dhcpv4.DHCPv4 // input (requestFromOffer) or output (discover)
	lease          *nclient4.Lease
	inLease        *nclient4.Lease
	txs            []*ex4Tx
}

type ex4Server struct {
	id      int
	ip      net.IP
	conn    *Conn
	closeFn func() error
}

type ex4State struct {
	s          *simrt.Sim
	tape       *simrt.Tape
	net        *Net
	raw        bool
	T          time.Duration
	tries      int
	stall      bool
	serverAddr *net.UDPAddr // the address the client is configured to talk to (default: limited broadcast, port 67)
	xid        dhcpv4.TransactionID
	forced     bool // the harness chooses the transaction id (else: the library's own random one)
	xnames     map[uint32]string

	cconn   *Conn // the client's socket (direct mode) or the link (raw mode)
	servers []*ex4Server
	rx      []*ex4Rx
	ops     []*ex4Op
	cur     *ex4Op
	newErr  error

	lossNum, dupNum, corruptNum int
}

var (
	siteEx4Main = simrt.HSite("ex4.main")
)

func ex4Scenario() *Scenario {
	return &Scenario{Name: "c13-v4", Property: "C13", Run: func(s *simrt.Sim, tier string) func(simrt.RunResult) []simrt.Violation {
		t := s.Tape()
		st := &ex4State{s: s, tape: t}
		s.EnableHB()
		st.stall = t.Coin(1, 5)
		s.AllowStall = st.stall
		if st.stall {
			s.StallPermille = 10
		}
		s.Probe("policy-" + pickPolicy(s))
		st.start()
		return func(res simrt.RunResult) []simrt.Violation {
			v := &vio{}
			if st.newErr != nil {
				v.add("harness", "setup failed: %v", st.newErr)
				return v.list
			}
			st.oracle(v)
			return v.list
		}
	}}
}

func (st *ex4State) start() {
	s, t := st.s, st.tape
	st.raw = t.Coin(1, 2)
	// package-level state of the library is put back before every run: a change that writes
	// through it must not make runs depend on each other
	*nclient4.DefaultServers = net.UDPAddr{IP: net.IPv4bcast, Port: 67}
	ex4ClientHW = drawClientHW(t)
	st.T = pick(t, ms(50), ms(200))
	st.tries = 1 + t.Weighted(2, 3, 2)
	st.xid = xid4(0x77000000 | uint32(t.Choose(4)))
	st.forced = t.Coin(1, 2)
	st.xnames = map[uint32]string{}
	nserv := t.Weighted(1, 4, 3, 2)
	st.lossNum = swarmRate(t, 5, 25)
	st.dupNum = swarmRate(t, 5, 25)
	st.corruptNum = swarmRate(t, 3, 15)
	workload := t.Weighted(3, 2)
	s.GoTask("main", func() {
		st.net = NewNet(s)
		// client side
		var cc net.PacketConn
		// a write deadline the client set itself can expire under the stalled-task fault: the
		// operation then had a socket failure, which the failure rules must know
		onWriteFail := func([]byte, net.Addr) {
			s.Fault("write-deadline-expired")
			if st.cur != nil {
				st.cur.writeFailed = true
			}
		}
		if st.raw {
			st.cconn = NewConn(s, "link", &packet.Addr{})
			st.cconn.OnWriteFail = onWriteFail
			cc = nclient4.NewBroadcastUDPConn(st.cconn, &net.UDPAddr{Port: 68})
			st.cconn.OnWrite = func(b []byte, to net.Addr) {
				// the link: unwrap the frame with the reference NIC
				if len(b) < 28 || b[0] != 0x45 || b[9] != 17 {
					s.Violate("X-frame", "client emitted a frame that is not IPv4/UDP with a 20-byte header")
					return
				}
				dst := &net.UDPAddr{IP: net.IP(append([]byte(nil), b[16:20]...)), Port: int(binary.BigEndian.Uint16(b[22:24]))}
				st.clientTx(append([]byte(nil), b[28:]...), dst)
			}
			st.cconn.OnRead = func(d dgram, n int) {
				if e, ok := nicAccept(d.b[:n], &net.UDPAddr{Port: 68}); ok {
					st.clientRx(e.payload)
				}
			}
		} else {
			st.cconn = NewConn(s, "cconn", &net.UDPAddr{IP: net.IPv4zero, Port: 68})
			st.cconn.OnWriteFail = onWriteFail
			cc = st.cconn
			st.cconn.OnWrite = func(b []byte, to net.Addr) {
				ua, _ := to.(*net.UDPAddr)
				st.clientTx(b, ua)
			}
			st.cconn.OnRead = func(d dgram, n int) {
				if len(d.b) <= 1500 {
					n = len(d.b) // judged as on the wire (see clientcore.go onRead)
				}
				st.clientRx(append([]byte(nil), d.b[:n]...))
			}
		}
		st.cconn.OnReadEnter = func() {
			if n := len(st.rx); n > 0 && st.rx[n-1].doneSeq == 0 {
				st.rx[n-1].doneSeq = s.Seq()
			}
		}
		s.EnterSUT()
		copts := []nclient4.ClientOpt{nclient4.WithTimeout(st.T), nclient4.WithRetry(st.tries)}
		if t.Coin(1, 3) {
			// a client configured with a (unicast) server address: DISCOVER / REQUEST / renewals go
			// there; the release still goes to the lease's server
			st.serverAddr = &net.UDPAddr{IP: net.IPv4(10, 0, 0, byte(1+t.Choose(3))), Port: 67}
			copts = append(copts, nclient4.WithServerAddr(&net.UDPAddr{IP: append(net.IP(nil), st.serverAddr.IP...), Port: 67}))
			s.Probe("client-with-configured-server-address")
		}
		cl, err := nclient4.NewWithConn(cc, ex4ClientHW, copts...)
		s.LeaveSUT()
		if err != nil {
			st.newErr = err
			st.net.Stop(true)
			return
		}
		// servers
		sj := newJoiner(s, "servers")
		for i := 0; i < nserv; i++ {
			sv := &ex4Server{id: i, ip: net.IPv4(10, 0, 0, byte(1+i))}
			sv.conn = NewConn(s, fmt.Sprintf("s%dconn", i), &net.UDPAddr{IP: sv.ip, Port: 67})
			sv.conn.OnWrite = func(b []byte, to net.Addr) { st.toClient(sv, b) }
			srv, err := server4.NewServer("", nil, st.handler(sv), server4.WithConn(sv.conn))
			if err != nil {
				st.newErr = err
				continue
			}
			sv.closeFn = srv.Close
			st.servers = append(st.servers, sv)
			sj.Go(fmt.Sprintf("serve%d", i), func() {
				s.EnterSUT()
				srv.Serve()
				s.LeaveSUT()
			})
		}
		// workload
		cj := newJoiner(s, "client")
		cj.Go("client", func() { st.workload(cl, workload) })
		cj.Wait()
		s.EnterSUT()
		cl.Close()
		s.LeaveSUT()
		for _, sv := range st.servers {
			s.EnterSUT()
			sv.closeFn()
			s.LeaveSUT()
		}
		sj.Wait()
		st.net.Stop(true)
	})
}

// ex4ClientHW is the hardware address of the client of the current run (drawn per run:
// mostly an Ethernet MAC, sometimes 8 or 16 bytes - EUI-64, InfiniBand-style - or 3).
var ex4ClientHW = clientHW

func drawClientHW(t *simrt.Tape) net.HardwareAddr {
	switch t.Weighted(6, 1, 1, 1) {
	case 1:
		return net.HardwareAddr{0x02, 0x00, 0x00, 0xff, 0xfe, 0xaa, 0xbb, 0x01}
	case 2:
		return net.HardwareAddr{0x02, 0, 0, 0xaa, 0xbb, 0x01, 7, 8, 9, 10, 11, 12, 13, 14, 15, 16}
	case 3:
		return net.HardwareAddr{0x02, 0xaa, 0x01}
	}
	return clientHW
}

func (st *ex4State) mods() []dhcpv4.Modifier {
	if !st.forced {
		return nil
	}
	return []dhcpv4.Modifier{dhcpv4.WithTransactionID(st.xid)}
}

// xn renders a transaction id by order of first appearance, so that the event
// log does not depend on the library's random ids.
func (st *ex4State) xn(x uint32) string {
	n, ok := st.xnames[x]
	if !ok {
		n = fmt.Sprintf("x%d", len(st.xnames))
		st.xnames[x] = n
	}
	return n
}

func (st *ex4State) op(kind string, fn func(o *ex4Op)) *ex4Op {
	s := st.s
	o := &ex4Op{kind: kind, invT: s.Now()}
	st.ops = append(st.ops, o)
	st.cur = o
	o.invSeq = s.Ev("op.invoke", len(st.ops)-1, 0, kind, nil)
	s.EnterSUT()
	fn(o)
	s.LeaveSUT()
	o.retT = s.Now()
	o.returned = true
	o.retSeq = s.Ev("op.return", len(st.ops)-1, 0, fmt.Sprintf("%s err=%s", kind, logErr(o.err)), nil)
	st.cur = nil
	return o
}

func (st *ex4State) workload(cl *nclient4.Client, w int) {
	// one client object, one or two acquisitions in a row (an application that starts over:
	// whatever the first round left behind in the client must not leak into the second)
	st.round(cl, w)
	if st.tape.Coin(1, 4) {
		st.s.Probe("second-acquisition-on-the-same-client")
		sleep(pick(st.tape, 0, ms(1), st.T), siteEx4Main)
		st.round(cl, st.tape.Choose(2))
	}
}

func (st *ex4State) round(cl *nclient4.Client, w int) {
	t := st.tape
	ctx := context.Background()
	var lease *nclient4.Lease
	if w == 0 {
		o := st.op("request", func(o *ex4Op) { o.lease, o.err = cl.Request(ctx, st.mods()...) })
		lease = o.lease
	} else {
		d := st.op("discover", func(o *ex4Op) { o.offer, o.err = cl.DiscoverOffer(ctx, st.mods()...) })
		if d.err != nil || d.offer == nil {
			return
		}
		sleep(pick(t, 0, 0, ms(1), st.T/2, ms(1100)), siteEx4Main) // ms(1100): the application pauses across a wall-clock second
		o := st.op("requestFromOffer", func(o *ex4Op) {
			o.offer = d.offer
			o.lease, o.err = cl.RequestFromOffer(ctx, d.offer, st.mods()...)
		})
		lease = o.lease
	}
	if lease == nil {
		return
	}
	for n := t.Weighted(2, 3, 1); n > 0; n-- {
		sleep(pick(t, 0, ms(1), st.T), siteEx4Main)
		in := lease
		o := st.op("renew", func(o *ex4Op) {
			o.inLease = in
			o.lease, o.err = cl.Renew(ctx, in, st.mods()...)
		})
		if o.lease != nil {
			lease = o.lease
		}
	}
	if t.Coin(2, 3) {
		in := lease
		st.op("release", func(o *ex4Op) {
			o.inLease = in
			o.err = cl.Release(in, st.mods()...) // without a modifier the RELEASE gets a random transaction id
		})
	}
}

// ---- network

var hexIDs = regexp.MustCompile(`0x[0-9a-fA-F]{2,}`)

// logErr renders an error for the event log: transaction ids the library chose at random
// must not make two executions of one tape differ.
func logErr(err error) string {
	if err == nil {
		return "<nil>"
	}
	return hexIDs.ReplaceAllString(err.Error(), "0x<id>")
}

func (st *ex4State) clientTx(b []byte, dest *net.UDPAddr) {
	s, t := st.s, st.tape
	if dest != nil {
		// a copy: what the destination was when the datagram left, not what the address object says later
		dest = &net.UDPAddr{IP: append(net.IP(nil), dest.IP...), Port: dest.Port, Zone: dest.Zone}
	}
	tx := &ex4Tx{t: s.Now(), raw: b, dest: dest}
	tx.p, tx.ok = parseBootp(b)
	tx.seq = s.Ev("tx", -1, int64(tx.p.typ()), fmt.Sprintf("xid=%s dest=%v", st.xn(tx.p.xid), dest), nil)
	if st.cur != nil {
		st.cur.txs = append(st.cur.txs, tx)
	} else {
		s.Violate("X-unsolicited-tx", "the client transmitted outside any call")
	}
	// broadcast domain: every server hears it (loss, duplication, corruption, delay per copy)
	for _, sv := range st.servers {
		sv := sv
		copies := 1
		if st.lossNum > 0 && t.Coin(st.lossNum, 100) {
			copies = 0
			s.Fault("loss")
		} else if st.dupNum > 0 && t.Coin(st.dupNum, 100) {
			copies = 2
			s.Fault("duplicate")
		}
		for c := 0; c < copies; c++ {
			pb := st.maybeCorrupt(b)
			d := pick(t, 0, 0, ms(1), ms(2), st.T/4)
			from := &net.UDPAddr{IP: net.IPv4zero, Port: 68}
			if t.Coin(1, 4) {
				from = &net.UDPAddr{IP: nil, Port: 68}
			}
			st.net.After(d, func() {
				s.Stimulus()
				sv.conn.Deliver(dgram{b: pb, from: from, tag: "client"})
			})
		}
	}
}

func (st *ex4State) maybeCorrupt(b []byte) []byte {
	t := st.tape
	if st.corruptNum > 0 && len(b) > 0 && t.Coin(st.corruptNum, 100) {
		c := append([]byte(nil), b...)
		c[t.Choose(len(c))] ^= 1 << uint(t.Choose(8))
		st.s.Fault("corrupt")
		return c
	}
	return b
}

// toClient carries one server transmission to the client through the faulty network.
func (st *ex4State) toClient(sv *ex4Server, b []byte) {
	s, t := st.s, st.tape
	s.Ev("server.tx", sv.id, int64(len(b)), "", nil)
	copies := 1
	if st.lossNum > 0 && t.Coin(st.lossNum, 100) {
		copies = 0
		s.Fault("loss")
	} else if st.dupNum > 0 && t.Coin(st.dupNum, 100) {
		copies = 2
		s.Fault("duplicate")
	}
	for c := 0; c < copies; c++ {
		pb := st.maybeCorrupt(b)
		d := pick(t, 0, 0, ms(1), ms(3), st.T/2, st.T-ms(1), st.T, st.T+ms(1), 2*st.T)
		st.net.After(d, func() {
			s.Stimulus()
			if st.raw {
				var src [4]byte
				copy(src[:], sv.ip.To4())
				fr := buildFrame(frameSpec{srcIP: src, dstIP: [4]byte{255, 255, 255, 255}, srcPort: 67, dstPort: 68, payload: pb, ihl: 5, proto: 17, version: 4, cutAt: -1, padding: []int{0, 0, 6}[t.Choose(3)]})
				st.cconn.Deliver(dgram{b: fr, from: &packet.Addr{}, tag: fmt.Sprintf("s%d", sv.id)})
			} else {
				st.cconn.Deliver(dgram{b: pb, from: &net.UDPAddr{IP: sv.ip, Port: 67}, tag: fmt.Sprintf("s%d", sv.id)})
			}
		})
	}
}

func (st *ex4State) clientRx(b []byte) {
	s := st.s
	r := &ex4Rx{t: s.Now(), bytes: b}
	if m, err := dhcpv4.FromBytes(append([]byte(nil), b...)); err == nil {
		r.m = m
		r.canon = m.ToBytes()
	}
	desc := "undecodable"
	if r.m != nil {
		desc = fmt.Sprintf("xid=%s type=%s sid=%v yi=%v", st.xn(binary.BigEndian.Uint32(r.m.TransactionID[:])), r.m.MessageType(), r.m.ServerIdentifier(), r.m.YourIPAddr)
	}
	r.seq = s.Ev("rx", -1, int64(len(b)), desc, nil)
	st.rx = append(st.rx, r)
}

// ---- scripted server behaviour

func (st *ex4State) handler(sv *ex4Server) server4.Handler {
	s, t := st.s, st.tape
	return func(conn net.PacketConn, peer net.Addr, m *dhcpv4.DHCPv4) {
		s.Ev("server.rx", sv.id, int64(m.MessageType()), fmt.Sprintf("xid=%s sid=%v", st.xn(binary.BigEndian.Uint32(m.TransactionID[:])), m.ServerIdentifier()), nil)
		var n int
		switch m.MessageType() {
		case dhcpv4.MessageTypeDiscover:
			n = t.Weighted(1, 5, 2, 1)
		case dhcpv4.MessageTypeRequest:
			forMe := m.ServerIdentifier() == nil || m.ServerIdentifier().Equal(sv.ip)
			if forMe {
				n = t.Weighted(1, 5, 2, 1)
			} else {
				n = t.Weighted(6, 2, 1) // non-compliant servers answer anyway
			}
		default:
			return
		}
		for i := 0; i < n; i++ {
			var typ dhcpv4.MessageType
			if m.MessageType() == dhcpv4.MessageTypeDiscover {
				typ = []dhcpv4.MessageType{dhcpv4.MessageTypeOffer, dhcpv4.MessageTypeAck, dhcpv4.MessageTypeNak, dhcpv4.MessageTypeInform}[t.Weighted(8, 1, 1, 1)]
			} else {
				typ = []dhcpv4.MessageType{dhcpv4.MessageTypeAck, dhcpv4.MessageTypeNak, dhcpv4.MessageTypeOffer, dhcpv4.MessageTypeDecline}[t.Weighted(6, 3, 1, 1)]
			}
			mods := []dhcpv4.Modifier{dhcpv4.WithMessageType(typ),
				dhcpv4.WithYourIP([]net.IP{net.IPv4(192, 168, byte(sv.id), byte(10+t.Choose(4))), net.IPv4(192, 168, byte(sv.id), 10), net.IPv4zero, net.IPv4bcast, net.IPv4(192, 168, byte(sv.id), 255)}[t.Weighted(8, 4, 1, 1, 1)]),
				dhcpv4.WithOption(dhcpv4.OptIPAddressLeaseTime([]time.Duration{60 * time.Second, 61 * time.Second, 62 * time.Second, time.Second, 0, 0xffffffff * time.Second}[t.Weighted(3, 2, 2, 2, 1, 1)]))} // also: one second (expired before a renewal), zero, infinite
			switch t.Weighted(8, 1, 2, 1) {
			case 3:
				// a server identifier option of unusual length
				mods = append(mods, dhcpv4.WithGeneric(dhcpv4.OptionServerIdentifier, append([]byte(sv.ip.To4()), make([]byte, []int{1, 12}[t.Choose(2)])...)))
				s.Fault("reply-odd-server-id-length")
			case 0:
				mods = append(mods, dhcpv4.WithOption(dhcpv4.OptServerIdentifier(sv.ip)))
			case 1:
				// no server identifier at all
				s.Fault("reply-no-server-id")
			case 2:
				other := net.IPv4(10, 0, 0, byte(1+(sv.id+1+t.Choose(2))%3))
				mods = append(mods, dhcpv4.WithOption(dhcpv4.OptServerIdentifier(other)))
				s.Fault("reply-foreign-server-id")
			}
			// arbitrary lease options: whatever the server sends belongs to "that very offer / ACK"
			if t.Coin(1, 2) {
				mods = append(mods, dhcpv4.WithOption(dhcpv4.OptSubnetMask(net.IPv4Mask(255, 255, byte(240+t.Choose(16)), 0))),
					dhcpv4.WithOption(dhcpv4.OptRouter(net.IPv4(192, 168, byte(sv.id), 1))))
			}
			if t.Coin(1, 3) {
				mods = append(mods, dhcpv4.WithOption(dhcpv4.OptDNS(net.IPv4(9, 9, 9, byte(t.Choose(9))), net.IPv4(1, 1, 1, 1))),
					dhcpv4.WithOption(dhcpv4.OptDomainName(fmt.Sprintf("lab%d.example", t.Choose(4)))))
			}
			if t.Coin(1, 4) {
				mods = append(mods, dhcpv4.WithGeneric(dhcpv4.GenericOptionCode(43), []byte{1, 2, byte(sv.id), byte(t.Choose(250))}),
					dhcpv4.WithGeneric(dhcpv4.GenericOptionCode(224), bytes.Repeat([]byte{byte(0x30 + t.Choose(9))}, 1+t.Choose(300))))
			}
			if t.Coin(1, 3) {
				// ... really arbitrary: any other option code with a short drawn value (client
				// identifier echoed or invented, NTP servers, TFTP server, classless routes, ...)
				code := []int{61, 61, 12, 15, 28, 42, 43, 57, 58, 59, 60, 66, 67, 77, 81, 82, 93, 97, 119, 121, 125, 150, 252}[t.Choose(23)]
				mods = append(mods, dhcpv4.WithGeneric(dhcpv4.GenericOptionCode(code), randBytes(t, 1+t.Choose(9))))
				s.Fault("reply-arbitrary-extra-option")
			}
			// siaddr ("next server") and ciaddr are the server's to fill in: neither is the server identifier
			switch t.Weighted(4, 2, 2) {
			case 1:
				mods = append(mods, dhcpv4.WithServerIP(sv.ip))
			case 2:
				mods = append(mods, dhcpv4.WithServerIP(net.IPv4(192, 0, 2, byte(70+t.Choose(3)))))
				s.Fault("reply-siaddr-not-server-id")
			}
			switch t.Weighted(4, 2, 2) {
			case 1:
				mods = append(mods, dhcpv4.WithClientIP(m.ClientIPAddr))
			case 2:
				mods = append(mods, dhcpv4.WithClientIP(net.IPv4(192, 168, byte(sv.id), byte(100+t.Choose(3)))))
				s.Fault("reply-ciaddr-set")
			}
			if typ == dhcpv4.MessageTypeNak && t.Coin(1, 2) {
				mods = append(mods, dhcpv4.WithOption(dhcpv4.OptMessage("no")))
			}
			rep, err := dhcpv4.NewReplyFromRequest(m, mods...)
			if err != nil {
				continue
			}
			if t.Coin(1, 30) {
				// a BOOTP-style reply: no message-type option at all
				rep.Options.Del(dhcpv4.OptionDHCPMessageType)
				s.Fault("reply-without-message-type")
			}
			if t.Coin(1, 25) {
				// a message-type option that is two octets long: no DHCP message type at all
				rep.UpdateOption(dhcpv4.OptGeneric(dhcpv4.OptionDHCPMessageType, []byte{byte(typ), []byte{6, 0, 2, 5}[t.Choose(4)]}))
				s.Fault("reply-two-octet-message-type")
			}
			// the scripted server answers the client it knows, whatever the library's reply
			// builder makes of the request's hardware address field
			rep.ClientHWAddr = append(net.HardwareAddr(nil), ex4ClientHW...)
			rep.OpCode = dhcpv4.OpcodeBootReply
			rep.TransactionID = m.TransactionID
			rep.HWType = m.HWType
			switch t.Weighted(10, 1, 1, 1) {
			case 1:
				rep.TransactionID[3] ^= 0x40
				s.Fault("reply-wrong-xid")
			case 2:
				switch t.Choose(4) {
				case 0, 1:
					rep.ClientHWAddr = otherHW
				case 2:
					rep.ClientHWAddr = net.HardwareAddr{} // hlen 0
				case 3:
					rep.ClientHWAddr = append(append(net.HardwareAddr{}, ex4ClientHW...), 0, 0)
				}
				s.Fault("reply-wrong-hw")
			case 3:
				rep.OpCode = dhcpv4.OpcodeBootRequest
				s.Fault("reply-request-op")
			}
			b := rep.ToBytes()
			if t.Coin(1, 20) {
				b = b[:t.Choose(len(b))]
				s.Fault("reply-truncated")
			}
			s.Fault("reply-" + typ.String())
			conn.WriteTo(b, peer)
		}
	}
}

// ---------------------------------------------------------------- oracle

func ip4eq(a [4]byte, ip net.IP) bool {
	v := ip.To4()
	return v != nil && bytes.Equal(a[:], v)
}

// qualifies: would this delivered datagram complete a REQUEST for offer (xid, server identifier)?
func (st *ex4State) qualifies(r *ex4Rx, xid dhcpv4.TransactionID, sid net.IP) bool {
	if !r.eligible(xid) {
		return false
	}
	mt := r.m.MessageType()
	if mt != dhcpv4.MessageTypeAck && mt != dhcpv4.MessageTypeNak {
		return false
	}
	return r.m.ServerIdentifier().Equal(sid)
}

// tryOf returns the index of the last transmission of o completed before event seq.
func tryBefore(o *ex4Op, seq int) *ex4Tx {
	var last *ex4Tx
	for _, tx := range o.txs {
		if tx.seq < seq {
			last = tx
		}
	}
	return last
}

// findSource finds the delivery a returned message stems from: delivered before
// beforeSeq and not yet dealt with by the receive loop at notDoneBefore.
func (st *ex4State) findSource(m *dhcpv4.DHCPv4, notDoneBefore, beforeSeq int) *ex4Rx {
	if m == nil {
		return nil
	}
	want := m.ToBytes()
	for _, r := range st.rx {
		if (r.doneSeq == 0 || r.doneSeq >= notDoneBefore) && r.seq < beforeSeq && r.canon != nil && bytes.Equal(r.canon, want) {
			return r
		}
	}
	return nil
}

func (st *ex4State) checkRequestPhase(v *vio, o *ex4Op, offer *dhcpv4.DHCPv4, reqTxs []*ex4Tx, name string) {
	if offer == nil {
		return
	}
	sid := offer.ServerIdentifier()
	sidRaw := offer.Options.Get(dhcpv4.OptionServerIdentifier)
	wantXid := binary.BigEndian.Uint32(offer.TransactionID[:])
	wantAddr := offer.YourIPAddr.To4()
	// Prefer the offer as it was on the wire, read with the independent BOOTP reader: what
	// the library decoded cannot reveal a decoding mistake of the library itself.
	if src := st.findSource(offer, 0, 1<<30); src != nil {
		if raw, ok := parseBootp(src.bytes); ok && raw.op == 2 {
			wantXid = raw.xid
			wantAddr = net.IP(raw.yiaddr[:])
			if _, has := raw.opts[54]; has || sidRaw == nil {
				sidRaw = raw.opts[54]
			}
		}
	}
	for i, tx := range reqTxs {
		if !tx.ok {
			v.add("X-req-malformed", "%s: REQUEST transmission %d is not a well-formed BOOTP/DHCP packet", name, i+1)
			continue
		}
		p := tx.p
		if p.op != 1 || !bytes.Equal(p.chaddr, ex4ClientHW) {
			v.add("X-req-hw", "%s: REQUEST %d has op=%d chaddr=%x, want BOOTREQUEST from %x", name, i+1, p.op, p.chaddr, []byte(ex4ClientHW))
		}
		if p.xid != wantXid {
			v.add("X-req-xid", "%s: REQUEST %d has xid %08x, want the offer's %08x", name, i+1, p.xid, wantXid)
		}
		if o50 := p.opts[50]; len(o50) != 4 || !wantAddr.Equal(net.IP(o50)) {
			v.add("X-req-addr", "%s: REQUEST %d requested-address option is %v, want the offered address %v", name, i+1, net.IP(o50), wantAddr)
		}
		if o54 := p.opts[54]; !bytes.Equal(o54, sidRaw) {
			v.add("X-req-server", "%s: REQUEST %d server-identifier option is %v, want the offer's %v", name, i+1, o54, sidRaw)
		}
	}
	if !o.returned || len(reqTxs) == 0 {
		return
	}
	first := reqTxs[0]
	var nak *nclient4.ErrNak
	switch {
	case o.err == nil && o.lease != nil:
		if o.lease.Offer == nil || !bytes.Equal(o.lease.Offer.ToBytes(), offer.ToBytes()) {
			v.add("X-lease-offer", "%s: the lease's Offer is not the offer the REQUEST was built from", name)
		}
		st.checkCompletion(v, o, name, o.lease.ACK, dhcpv4.MessageTypeAck, offer.TransactionID, sid, first)
	case errors.As(o.err, &nak):
		if nak.Offer == nil || !bytes.Equal(nak.Offer.ToBytes(), offer.ToBytes()) {
			v.add("X-nak-offer", "%s: ErrNak.Offer is not the offer the REQUEST was built from", name)
		}
		st.checkCompletion(v, o, name, nak.Nak, dhcpv4.MessageTypeNak, offer.TransactionID, sid, first)
	case o.err == nil:
		v.add("X-nil", "%s: returned neither a lease nor an error", name)
	default:
		// failed: nothing qualifying may have been delivered strictly inside a try
		if !st.stall {
			for i, tx := range reqTxs {
				end := o.retT
				if i+1 < len(reqTxs) {
					end = reqTxs[i+1].t
				}
				for _, r := range st.rx {
					if r.seq > tx.seq && r.t > tx.t && r.t < end && st.qualifies(r, offer.TransactionID, sid) {
						v.add("X-missed-reply", "%s: failed with %v although a qualifying %s from the selected server was delivered at t=%v, strictly inside try %d (t=%v..%v)", name, o.err, r.m.MessageType(), r.t, i+1, tx.t, end)
					}
				}
			}
		}
	}
}

// checkCompletion: the message that completed the call is a delivered, qualifying
// datagram of the expected type and the first qualifying one of its try.
func (st *ex4State) checkCompletion(v *vio, o *ex4Op, name string, got *dhcpv4.DHCPv4, want dhcpv4.MessageType, xid dhcpv4.TransactionID, sid net.IP, firstTx *ex4Tx) {
	if got == nil {
		v.add("X-result-nil", "%s: completed without a message", name)
		return
	}
	if got.MessageType() != want {
		v.add("X-result-type", "%s: completed by a %s, want %s", name, got.MessageType(), want)
	}
	if got.OpCode != dhcpv4.OpcodeBootReply || !bytes.Equal(got.ClientHWAddr, ex4ClientHW) || got.TransactionID != xid {
		v.add("X-result-foreign", "%s: completed by a message that is not a BOOTREPLY for this client and transaction (op=%v hw=%v xid=%s)", name, got.OpCode, got.ClientHWAddr, got.TransactionID)
	}
	if sid != nil && !got.ServerIdentifier().Equal(sid) {
		v.add("X-result-server", "%s: completed by a %s bearing server identifier %v, want the selected server %v", name, got.MessageType(), got.ServerIdentifier(), sid)
	}
	// C13 does not say *when* the completing datagram must have arrived (that is C10's
	// clause, judged there): a client that reads ahead of its dispatcher may complete a phase
	// with a datagram it took from the socket earlier. What C13 needs is that the result is a
	// datagram the wire really delivered, not an invention.
	src := st.findSource(got, 0, o.retSeq)
	if src == nil {
		v.add("X-result-provenance", "%s: the completing %s is not the decoding of any datagram delivered to the client before the call returned", name, got.MessageType())
		return
	}
	// what kind of message it is, read from the wire by the independent option reader: exactly
	// one octet of option 53 (after RFC 3396 concatenation) with the expected value
	if raw, ok := parseBootp(src.bytes); ok && raw.typ() != int(want) {
		v.add("X-result-type-wire", "%s: completed by a datagram whose message-type option is % x on the wire, want the single octet %d", name, raw.opts[53], int(want))
	}
	tx := tryBefore(o, o.retSeq)
	if tx == nil {
		return
	}
	for _, r := range st.rx {
		if sid == nil {
			break // which of several ACKs / NAKs completes a renewal is not specified
		}
		if r.seq > tx.seq && r.seq < src.seq && st.qualifies(r, xid, sid) {
			v.add("X-result-not-first", "%s: completed by the %s delivered at #%d although a qualifying %s was delivered earlier in the same try, at #%d", name, got.MessageType(), src.seq, r.m.MessageType(), r.seq)
			break
		}
	}
}

func splitTxs(o *ex4Op) (disc, req, other []*ex4Tx) {
	for _, tx := range o.txs {
		switch tx.p.typ() {
		case 1:
			disc = append(disc, tx)
		case 3:
			req = append(req, tx)
		default:
			other = append(other, tx)
		}
	}
	return
}

func (st *ex4State) oracle(v *vio) {
	for i, o := range st.ops {
		name := fmt.Sprintf("op %d (%s)", i, o.kind)
		// reach probes: what the exchanges ended in
		var nk *nclient4.ErrNak
		switch {
		case !o.returned:
		case o.err == nil:
			st.s.Probe("op-" + o.kind + "-succeeded")
		case errors.As(o.err, &nk):
			st.s.Probe("op-" + o.kind + "-nak")
		default:
			st.s.Probe("op-" + o.kind + "-failed")
		}
		if len(o.txs) > 1 && o.kind != "request" {
			st.s.Probe("op-" + o.kind + "-retransmitted")
		}
		disc, req, other := splitTxs(o)
		for _, tx := range o.txs {
			if !tx.ok {
				v.add("X-tx-malformed", "%s: transmitted something that is not a BOOTP/DHCP packet", name)
			}
		}
		// DISCOVER, REQUEST and renewals go to the server address the client was built with
		// (by default the limited broadcast address, port 67), whatever happened before
		if o.kind != "release" {
			want := st.serverAddr
			if want == nil {
				want = &net.UDPAddr{IP: net.IPv4bcast, Port: 67}
			}
			// A renewal may also go to the lease's server directly: the statement says what the
			// renewal REQUEST looks like ("unicast" is the cleared broadcast flag, judged by
			// X-renew-broadcast), not where the datagram is sent, and RFC 2131 4.4.5 has a
			// RENEWING client address its server.
			var alt net.IP
			if o.kind == "renew" && o.inLease != nil && o.inLease.ACK != nil {
				if sid := o.inLease.ACK.Options.Get(dhcpv4.OptionServerIdentifier); len(sid) == 4 {
					alt = net.IP(sid)
				}
			}
			for j, tx := range o.txs {
				if tx.dest != nil && alt != nil && tx.dest.IP.Equal(alt) && tx.dest.Port == 67 {
					st.s.Probe("renewal-sent-to-the-leases-server")
					continue
				}
				if tx.dest == nil || !tx.dest.IP.Equal(want.IP) || tx.dest.Port != want.Port {
					v.add("X-dest", "%s: transmission %d went to %v, want the client's server address %v", name, j+1, tx.dest, want)
					break
				}
			}
		}
		// a NAK answers a REQUEST: no call may end in a NAK error before it has transmitted one
		if o.returned && errors.As(o.err, &nk) && len(req) == 0 && o.kind != "release" {
			v.add("X-nak-without-request", "%s: ended in a NAK error although no REQUEST had been transmitted (a NAK that answers a DISCOVER is to be ignored)", name)
		}
		// An exchange that fails without a NAK fails because nothing qualifying arrived: with the
		// no-response error, after the phase it was in has been transmitted the configured
		// number of times on the configured schedule (the calls are made with a context that
		// never ends, and this scenario injects no socket errors).
		if o.returned && o.err != nil && !errors.As(o.err, &nk) && o.kind != "release" && len(o.txs) > 0 && !o.writeFailed {
			phase := disc
			if len(req) > 0 {
				phase = req
			}
			if !errors.Is(o.err, nclient4.ErrNoResponse) {
				v.add("X-fail-error", "%s: failed with %v, want the no-response error (nobody cancelled anything and no socket operation failed)", name, o.err)
			} else if len(phase) > 0 {
				// One-sided on purpose: giving up *early* means something that should have been
				// ignored ended the exchange, which is C13's clause. Taking longer, or more
				// transmissions, than configured is C11's and C12's business, judged there.
				// ... and only if the exchange gave up at the very instant a datagram was
				// delivered to it: then that datagram ended it. Giving up at an instant at which
				// nothing arrived is a timer's doing (a client whose timeouts are jittered or
				// capped gives up "early" too: C11's and C12's business).
				byDatagram := false
				for _, r := range st.rx {
					if r.t == o.retT && r.seq < o.retSeq {
						byDatagram = true
					}
				}
				if !byDatagram {
					st.s.Probe("exchange-gave-up-at-an-instant-without-a-delivery")
				} else if len(phase) < st.tries {
					v.add("X-fail-count", "%s: gave up after %d transmission(s) of its last message, configured tries = %d", name, len(phase), st.tries)
				}
				if want := st.T * time.Duration((int64(1)<<uint(st.tries))-1); byDatagram && !st.stall && o.retT-phase[0].t < want {
					v.add("X-fail-duration", "%s: gave up %v after first transmitting its last message, before the configured schedule ends at %v (T=%v, tries=%d)", name, o.retT-phase[0].t, want, st.T, st.tries)
				}
			}
		}
		switch o.kind {
		case "discover", "request":
			for j, tx := range disc {
				if tx.ok && (tx.p.op != 1 || !bytes.Equal(tx.p.chaddr, ex4ClientHW)) {
					v.add("X-disc-hw", "%s: DISCOVER %d has op=%d chaddr=%x", name, j+1, tx.p.op, tx.p.chaddr)
				}
			}
			if len(other) > 0 {
				v.add("X-extra-tx", "%s: transmitted %d packet(s) that are neither DISCOVER nor REQUEST", name, len(other))
			}
			if o.kind == "discover" {
				if len(req) > 0 {
					v.add("X-extra-tx", "%s: DiscoverOffer transmitted a REQUEST", name)
				}
				if o.returned && o.err == nil {
					st.checkOffer(v, o, name, o.offer, disc, o.retSeq)
				}
				break
			}
			// full exchange: which offer was selected? the one the first REQUEST names
			if len(req) == 0 {
				if o.returned && o.err == nil {
					v.add("X-no-request", "%s: succeeded without transmitting a REQUEST", name)
				}
				break
			}
			if len(disc) == 0 {
				v.add("X-no-discover", "%s: REQUEST without a preceding DISCOVER", name)
				break
			}
			// candidates: OFFERs for this client and transaction delivered before the first
			// REQUEST and named by it (when they arrived is C10's business, not C13's)
			var cands []*dhcpv4.DHCPv4
			r0 := req[0]
			opXid := xid4(disc[0].p.xid)
			for _, r := range st.rx {
				if r.seq < r0.seq && r.eligible(opXid) && r.m.MessageType() == dhcpv4.MessageTypeOffer &&
					r0.ok && len(r0.p.opts[50]) == 4 && r.m.YourIPAddr.Equal(net.IP(r0.p.opts[50])) && bytes.Equal(r.m.Options.Get(dhcpv4.OptionServerIdentifier), r0.p.opts[54]) {
					cands = append(cands, r.m)
				}
			}
			if len(cands) == 0 {
				v.add("X-req-no-offer", "%s: the REQUEST (addr %v, server %v) corresponds to no OFFER for this client and transaction delivered before it was sent", name, net.IP(r0.p.opts[50]), r0.p.opts[54])
				break
			}
			// several identical-looking offers may qualify: the one the result names, if any
			offer := cands[0]
			var named *dhcpv4.DHCPv4
			var nk *nclient4.ErrNak
			if o.lease != nil {
				named = o.lease.Offer
			} else if errors.As(o.err, &nk) {
				named = nk.Offer
			}
			if named != nil {
				for _, c := range cands {
					if bytes.Equal(c.ToBytes(), named.ToBytes()) {
						offer = c
					}
				}
			}
			st.checkRequestPhase(v, o, offer, req, name)
		case "requestFromOffer":
			if len(disc)+len(other) > 0 {
				v.add("X-extra-tx", "%s: transmitted %d packet(s) other than REQUEST", name, len(disc)+len(other))
			}
			st.checkRequestPhase(v, o, o.offer, req, name)
		case "renew":
			st.checkRenew(v, o, name, req, len(disc)+len(other))
		case "release":
			st.checkRelease(v, o, name)
		}
	}
}

func (st *ex4State) checkOffer(v *vio, o *ex4Op, name string, offer *dhcpv4.DHCPv4, disc []*ex4Tx, before int) {
	if offer == nil {
		v.add("X-offer-nil", "%s: returned (nil, nil)", name)
		return
	}
	want := st.xid
	if len(disc) > 0 {
		want = xid4(disc[0].p.xid)
	}
	if offer.MessageType() != dhcpv4.MessageTypeOffer || offer.OpCode != dhcpv4.OpcodeBootReply || !bytes.Equal(offer.ClientHWAddr, ex4ClientHW) || offer.TransactionID != want {
		v.add("X-offer-foreign", "%s: returned a %s (op=%v hw=%v xid=%s) as the offer", name, offer.MessageType(), offer.OpCode, offer.ClientHWAddr, offer.TransactionID)
	}
	if len(disc) > 0 && st.findSource(offer, 0, before) == nil {
		v.add("X-offer-provenance", "%s: the returned offer is not the decoding of any datagram delivered to the client before the call returned", name)
	}
}

func (st *ex4State) checkRenew(v *vio, o *ex4Op, name string, req []*ex4Tx, extra int) {
	in := o.inLease
	if in == nil || in.ACK == nil || in.Offer == nil {
		return
	}
	if extra > 0 {
		v.add("X-extra-tx", "%s: transmitted %d packet(s) other than REQUEST", name, extra)
	}
	for i, tx := range req {
		if !tx.ok {
			continue
		}
		p := tx.p
		if p.op != 1 || !bytes.Equal(p.chaddr, ex4ClientHW) {
			v.add("X-renew-hw", "%s: renewal REQUEST %d has op=%d chaddr=%x", name, i+1, p.op, p.chaddr)
		}
		if !ip4eq(p.ciaddr, in.ACK.YourIPAddr) {
			v.add("X-renew-ciaddr", "%s: renewal REQUEST %d has ciaddr %v, want the leased address %v", name, i+1, net.IP(p.ciaddr[:]), in.ACK.YourIPAddr)
		}
		if p.flags&0x8000 != 0 {
			v.add("X-renew-broadcast", "%s: renewal REQUEST %d has the broadcast flag set", name, i+1)
		}
		if _, has := p.opts[50]; has {
			v.add("X-renew-opt50", "%s: renewal REQUEST %d carries a requested-address option", name, i+1)
		}
		if _, has := p.opts[54]; has {
			v.add("X-renew-opt54", "%s: renewal REQUEST %d carries a server-identifier option", name, i+1)
		}
	}
	if !o.returned || len(req) == 0 {
		return
	}
	sid := in.Offer.ServerIdentifier()
	xid := dhcpv4.TransactionID{}
	binary.BigEndian.PutUint32(xid[:], req[0].p.xid)
	var nak *nclient4.ErrNak
	// Who may complete a renewal, and what the new lease keeps of the old one, the property
	// does not say (its "completed only by ... that server identifier" clause is about the
	// REQUEST of an acquisition): judged here is only that the result is a delivered ACK / NAK
	// for this client and transaction. (An earlier version demanded the lease's server and the
	// original offer: more than the statement, see DESIGN.md section 6.2.)
	_ = sid
	switch {
	case o.err == nil && o.lease != nil:
		st.checkCompletion(v, o, name, o.lease.ACK, dhcpv4.MessageTypeAck, xid, nil, req[0])
	case errors.As(o.err, &nak):
		st.checkCompletion(v, o, name, nak.Nak, dhcpv4.MessageTypeNak, xid, nil, req[0])
	}
}

func (st *ex4State) checkRelease(v *vio, o *ex4Op, name string) {
	in := o.inLease
	if in == nil || in.ACK == nil {
		return
	}
	if o.err != nil {
		return
	}
	if len(o.txs) != 1 {
		v.add("X-release-count", "%s: %d transmissions, want exactly one RELEASE", name, len(o.txs))
		return
	}
	tx := o.txs[0]
	if !tx.ok {
		return
	}
	p := tx.p
	if p.typ() != 7 {
		v.add("X-release-type", "%s: transmitted message type %d, want RELEASE", name, p.typ())
	}
	if !ip4eq(p.ciaddr, in.ACK.YourIPAddr) {
		v.add("X-release-ciaddr", "%s: RELEASE has ciaddr %v, want the leased address %v", name, net.IP(p.ciaddr[:]), in.ACK.YourIPAddr)
	}
	if !bytes.Equal(p.chaddr, ex4ClientHW) {
		v.add("X-release-hw", "%s: RELEASE has chaddr %x", name, p.chaddr)
	}
	sid := in.ACK.Options.Get(dhcpv4.OptionServerIdentifier)
	if !bytes.Equal(p.opts[54], sid) {
		v.add("X-release-server", "%s: RELEASE server-identifier option is %v, want the lease's server %v", name, p.opts[54], sid)
	}
	if len(sid) == 4 && (tx.dest == nil || !tx.dest.IP.Equal(net.IP(sid)) || tx.dest.Port != 67) {
		v.add("X-release-dest", "%s: RELEASE sent to %v, want the lease's server %v:67", name, tx.dest, net.IP(sid))
	}
	if o.retT != o.invT && !st.stall {
		st.s.Probe("release-took-time (not judged: the statement does not say when Release returns)")
	}
}

func init() { register(ex4Scenario()) }
