//go:build go1.25

package zzsimharness

import (
	"fmt"
	"time"

	simrt "github.com/insomniacslk/dhcp/zzsimrt"
)

func ms(n int) time.Duration { return time.Duration(n) * time.Millisecond }

func pick(t *simrt.Tape, ds ...time.Duration) time.Duration { return ds[t.Choose(len(ds))] }

// swarmRate draws a fault rate from {0, low, high} (percent).
func swarmRate(t *simrt.Tape, low, high int) int {
	switch t.Weighted(2, 2, 1) {
	case 1:
		return low
	case 2:
		return high
	}
	return 0
}

func poolOf(p proto, n int) []uint32 {
	base := []uint32{0x00a1b2c3, 0x00a1b2c4, 0x00335577, 0x00f0e0d0, 0x00010203, 0x007f7f7f}
	if p.XidBits() == 32 {
		for i := range base {
			base[i] |= uint32(0x10+i) << 24
		}
	}
	return base[:n]
}

// poolSpecial: ids chosen for their bit patterns – zero, all ones, and ids that
// differ from one another only in the top or only in the bottom byte (a lookup
// that truncates or hashes the id badly confuses them).
func poolSpecial(p proto, n int) []uint32 {
	max := uint32(1)<<uint(p.XidBits()) - 1
	top := uint32(0x80) << uint(p.XidBits()-8)
	base := []uint32{0, max, 0x00a1b2c3, 0x00a1b2c3 ^ top, 0x00a1b2c3 ^ 1, max ^ top}
	return base[:n]
}

// ---------------------------------------------------------------- C10 routing

func genRouting(p proto, t *simrt.Tape, tier string) *ccCfg {
	cfg := &ccCfg{p: p, mode: modeRouting, closeAt: -1, readErrAt: -1, bufcap: -1}
	cfg.T = pick(t, ms(20), ms(100))
	cfg.tries = 1 + t.Weighted(3, 3, 2)
	if p.HasBufferCap() {
		cfg.bufcap = []int{-1, 0, 1, 5}[t.Weighted(3, 2, 3, 1)]
	}
	npool := 1 + t.Weighted(3, 4, 2, 1)
	cfg.pool = poolOf(p, npool)
	if t.Coin(1, 5) {
		cfg.pool = poolSpecial(p, 2+t.Choose(5))
	}
	ncallers := 1 + t.Weighted(2, 4, 4, 3, 2, 1, 1, 1)
	marathon := t.Coin(1, 10) // few callers, many calls: state that only goes wrong after many reuses of an id
	if marathon {
		ncallers = 1 + t.Choose(2)
	}
	gatedRun := t.Coin(1, 4)
	cfg.stall = t.Coin(1, 4)
	cfg.hb = true
	cfg.logger = t.Coin(1, 2)
	cfg.raw = p.Name() == "v4" && t.Coin(1, 4)
	T := cfg.T
	cfg.span = T * time.Duration((int64(1)<<uint(cfg.tries))+1)
	for i := 0; i < ncallers; i++ {
		ncalls := 1 + t.Weighted(4, 3, 1)
		if marathon {
			ncalls = 8 + t.Choose(10)
		}
		var specs []callSpec
		for j := 0; j < ncalls; j++ {
			sp := callSpec{xid: cfg.pool[t.Choose(len(cfg.pool))]}
			gw := 0
			if gatedRun {
				gw = 3
			}
			sp.mk = matcherKind(t.Weighted(6, 2, 1, 2, gw))
			if sp.mk == mkRejectN {
				sp.rejectN = 1 + t.Choose(3)
			}
			switch t.Weighted(8, 1, 1) {
			case 1:
				sp.ck = ctxCancelAt
				sp.ctxAt = time.Duration(t.Choose(int(cfg.span/time.Millisecond)+1)) * time.Millisecond
			case 2:
				sp.ck = ctxDeadline
				sp.ctxAt = time.Duration(t.Choose(int(cfg.span/time.Millisecond)+1)) * time.Millisecond
			}
			sp.startDelay = pick(t, 0, 0, ms(1), T/2, T-ms(1), T, T+ms(1), 2*T)
			sp.inUseRetry = []int{0, 3, 60}[t.Weighted(2, 1, 2)]
			if marathon {
				sp.startDelay = pick(t, 0, 0, 0, ms(1))
				sp.inUseRetry = 0
			}
			specs = append(specs, sp)
		}
		cfg.callers = append(cfg.callers, specs)
	}
	if t.Coin(1, 4) {
		cfg.closeAt = time.Duration(t.Choose(int(cfg.span/time.Millisecond)+1)) * time.Millisecond
	}
	cfg.gatesAt = time.Duration(t.Choose(int(2*cfg.span/time.Millisecond)+1)) * time.Millisecond
	if t.Coin(1, 10) {
		cfg.readErrAt = time.Duration(t.Choose(int(cfg.span/time.Millisecond)+1)) * time.Millisecond
	}
	cfg.replyCount = []int{2, 4, 3, 2, 1}
	cfg.kindWeights = []int{5, 4, 3, 1, 1, 1, 1, 1, 1}
	cfg.delays = []time.Duration{0, ms(1), ms(2), T / 2, T - ms(1), T, T + ms(1), 2 * T, 3 * T}
	cfg.dupNum = swarmRate(t, 5, 30)
	cfg.corruptNum = swarmRate(t, 3, 20)
	cfg.writeErrNum = swarmRate(t, 2, 15)
	cfg.background = t.Weighted(3, 2, 2, 1, 1, 1, 1)
	return cfg
}

// ---------------------------------------------------------------- C11 liveness

func genLiveness(p proto, t *simrt.Tape, tier string) *ccCfg {
	cfg := &ccCfg{p: p, mode: modeLiveness, closeAt: -1, readErrAt: -1, bufcap: -1}
	cfg.T = pick(t, ms(10), ms(1), ms(150), 5*time.Second)
	cfg.tries = []int{1, 2, 3, 4, 5, 6, 0}[t.Weighted(3, 3, 3, 2, 2, 2, 1)] // 0: no try at all, the call fails at once
	T := cfg.T
	bound := T * time.Duration((int64(1)<<uint(cfg.tries))-1)
	cfg.span = bound + T
	if p.HasBufferCap() {
		cfg.bufcap = []int{-1, 0, 1}[t.Weighted(3, 1, 2)]
	}
	cfg.hb = true
	cfg.logger = t.Coin(1, 2)
	cfg.raw = p.Name() == "v4" && t.Coin(1, 4)
	ncallers := 1 + t.Weighted(4, 3, 2, 1)
	cfg.pool = poolOf(p, 1+t.Weighted(1, 2, 3, 2))
	if t.Coin(1, 5) {
		cfg.pool = poolSpecial(p, 2+t.Choose(5))
	}
	// interesting instants: timer instants of a call started at 0, +-1ms, and anything in the span
	instant := func() time.Duration {
		switch t.Weighted(3, 3, 2) {
		case 0:
			k := t.Choose(cfg.tries + 1)
			d := T * time.Duration((int64(1)<<uint(k))-1)
			switch t.Weighted(3, 1, 1) {
			case 1:
				d += ms(1)
			case 2:
				if d >= ms(1) {
					d -= ms(1)
				}
			}
			return d
		case 1:
			return time.Duration(t.Choose(int(cfg.span/time.Millisecond)+2)) * time.Millisecond
		}
		return 0
	}
	for i := 0; i < ncallers; i++ {
		ncalls := 1 + t.Weighted(3, 2)
		var specs []callSpec
		for j := 0; j < ncalls; j++ {
			sp := callSpec{xid: cfg.pool[(i+t.Weighted(4, 1))%len(cfg.pool)]}
			sp.mk = matcherKind(t.Weighted(6, 2, 1, 2))
			if sp.mk == mkRejectN {
				sp.rejectN = 1 + t.Choose(3)
			}
			switch t.Weighted(5, 2, 2) {
			case 1:
				sp.ck = ctxCancelAt
				sp.ctxAt = instant()
			case 2:
				sp.ck = ctxDeadline
				sp.ctxAt = instant()
			}
			sp.startDelay = pick(t, 0, 0, 0, ms(1), T, T/2)
			sp.inUseRetry = 0
			specs = append(specs, sp)
		}
		cfg.callers = append(cfg.callers, specs)
	}
	if t.Coin(1, 3) {
		cfg.closeAt = instant()
	}
	cfg.closeErr = t.Coin(1, 8)
	if t.Coin(1, 10) {
		cfg.readErrAt = instant()
	}
	cfg.delays = []time.Duration{0, ms(1), T / 2, T - ms(1), T, T + ms(1), 2 * T, 3 * T, 3*T + ms(1), 7 * T}
	cfg.kindWeights = []int{4, 5, 2, 1, 1, 1, 1, 1, 1}
	switch t.Weighted(2, 3, 3, 2) {
	case 0: // silence
		cfg.replyCount = []int{1}
	case 1: // ordinary traffic
		cfg.replyCount = []int{2, 4, 3, 2}
	case 2: // endless stream of same-id replies the matcher rejects
		cfg.replyCount = []int{3, 1}
		per := T / time.Duration(2+t.Choose(6))
		if per < ms(1)/4 {
			per = ms(1) / 4
		}
		cfg.streamPeriod = per
		n := int((2*T*time.Duration(int64(1)<<uint(cfg.tries)))/per) + 2
		if n > 300 {
			n = 300
		}
		cfg.streamLen = n
	case 3: // bursts larger than the buffer
		cfg.replyCount = []int{0, 0, 0, 0, 0, 0, 1, 1, 1, 1, 1, 1}
		cfg.delays = []time.Duration{0, ms(1), T / 2, T / 2, T / 2, T}
		cfg.kindWeights = []int{1, 8, 1, 0, 0, 0, 0, 0}
	}
	cfg.dupNum = swarmRate(t, 5, 30)
	cfg.corruptNum = swarmRate(t, 3, 20)
	cfg.writeErrNum = swarmRate(t, 3, 15)
	cfg.background = t.Weighted(4, 2, 1, 1)
	return cfg
}

// ---------------------------------------------------------------- C12 retry schedule

var retryTs = []time.Duration{ms(1), 1337 * time.Microsecond, ms(7), ms(50), ms(150), time.Second, 5 * time.Second}
var retryNs = []int{1, 2, 3, 4, 5, 6, 0, -1, -3}

// retryGrid enumerates (T, n, k): k = 0 means no acceptable response.
func retryGrid() [][3]int {
	var g [][3]int
	for ti := range retryTs {
		for _, n := range retryNs {
			maxK := n
			if n < 0 {
				maxK = 4
			}
			for k := 0; k <= maxK; k++ {
				g = append(g, [3]int{ti, n, k})
			}
		}
	}
	return g
}

func genRetry(p proto, t *simrt.Tape, tier string) *ccCfg {
	cfg := &ccCfg{p: p, mode: modeRetry, closeAt: -1, readErrAt: -1, bufcap: -1}
	grid := retryGrid()
	cell := grid[t.Choose(len(grid))]
	cfg.T = retryTs[cell[0]]
	cfg.tries = cell[1]
	k := cell[2]
	T := cfg.T
	cfg.hb = false
	cfg.raw = p.Name() == "v4" && t.Coin(1, 5)
	cfg.pool = poolOf(p, 3)
	sp := callSpec{xid: cfg.pool[0], mk: mkType}
	if t.Coin(1, 4) {
		sp.mk = mkRejectN
		sp.rejectN = 1
	}
	sp.startDelay = pick(t, 0, ms(3), T)
	cfg.acceptAt = map[int]acceptPlan{}
	if k > 0 {
		tryLen := T << uint(k-1)
		var off time.Duration
		switch t.Weighted(2, 2, 2, 2, 1) {
		case 0:
			off = 0
		case 1:
			off = tryLen - ms(1)/2
		case 2:
			off = tryLen / 2
		case 3:
			off = time.Duration(t.Choose(int(tryLen/(ms(1)/4)))) * (ms(1) / 4)
		case 4:
			off = ms(1) / 4
		}
		if off >= tryLen {
			off = tryLen - ms(1)/4
		}
		cfg.acceptAt[0] = acceptPlan{try: k, offset: off}
	}
	bound := time.Duration(0)
	if cfg.tries > 0 {
		bound = T * time.Duration((int64(1)<<uint(cfg.tries))-1)
	}
	if cfg.tries < 0 && k == 0 {
		// retries until cancelled - or, with a context that can never end, until the client is closed
		how := t.Choose(3)
		sp.ck = ctxKind(1 + how%2)
		exp := t.Choose(13)
		at := T * time.Duration((int64(1)<<uint(exp))-1)
		switch t.Weighted(2, 2, 1) {
		case 1:
			at += time.Duration(t.Choose(int(T/(ms(1)/4))+1)) * (ms(1) / 4)
		case 2:
			at += ms(1) / 4
		}
		sp.ctxAt = sp.startDelay + at
		bound = at
		if how == 2 {
			sp.ck = ctxBackground
			sp.ctxAt = 0
			cfg.closeAt = sp.startDelay + at
		}
	} else if t.Coin(1, 8) && cfg.tries > 0 {
		sp.ck = ctxKind(1 + t.Choose(2))
		sp.ctxAt = time.Duration(t.Choose(int((bound+T)/(ms(1)/4)))) * (ms(1) / 4)
	}
	if cfg.tries < 0 && sp.ck == ctxBackground && cfg.closeAt < 0 {
		// safety net: a planned acceptance may be rejected by a reject-first-n matcher
		sp.ck = ctxCancelAt
		sp.ctxAt = sp.startDelay + T*time.Duration((int64(1)<<uint(k+2))-1) + ms(1)/4
		bound = sp.ctxAt
	}
	if sp.ck == ctxBackground && cfg.tries > 0 && t.Coin(1, 4) {
		cfg.slowWrite = true
		bound += T * 4 * time.Duration(cfg.tries)
	}
	cfg.span = bound + 2*T
	cfg.callers = [][]callSpec{{sp}}
	if cfg.tries >= 0 && cfg.tries <= 3 && t.Coin(1, 3) {
		// a second call on the same client (same or another id): the schedule starts afresh
		sp2 := callSpec{xid: cfg.pool[t.Choose(2)*2], mk: mkType, startDelay: pick(t, 0, ms(1)/4, T)}
		cfg.callers[0] = append(cfg.callers[0], sp2)
		cfg.span += bound + 2*T
	}
	// bystanders on other ids
	nby := t.Weighted(3, 2, 1)
	for i := 0; i < nby; i++ {
		b := callSpec{xid: cfg.pool[1+i], mk: mkType, startDelay: pick(t, 0, ms(1), T/2, T)}
		if cfg.tries < 0 {
			b.ck = ctxCancelAt
			b.ctxAt = time.Duration(t.Choose(int(cfg.span/(ms(1)/4))+1)) * (ms(1) / 4)
		}
		cfg.callers = append(cfg.callers, []callSpec{b})
	}
	// noise only: nothing the by-type matcher accepts with the caller's id, except the planned one
	cfg.replyCount = []int{3, 3, 2, 1}
	cfg.kindWeights = []int{0, 5, 3, 2, 1, 1, 1, 1}
	cfg.delays = []time.Duration{0, ms(1) / 4, T / 3, T / 2, T - ms(1)/4, T, T + ms(1)/4, 2 * T, 3 * T}
	cfg.background = t.Weighted(3, 2, 1)
	cfg.dupNum = swarmRate(t, 5, 20)
	cfg.corruptNum = 0
	return cfg
}

// ---------------------------------------------------------------- registration

func ccScenario(name, prop string, p proto, gen func(proto, *simrt.Tape, string) *ccCfg, oracle func(*ccState, *vio)) *Scenario {
	return &Scenario{
		Name:     name,
		Property: prop,
		Run: func(s *simrt.Sim, tier string) func(simrt.RunResult) []simrt.Violation {
			t := s.Tape()
			cfg := gen(p, t, tier)
			s.Probe("policy-" + pickPolicy(s))
			if cfg.stall {
				s.StallPermille = 15
			}
			st := &ccState{s: s, cfg: cfg, tape: t}
			st.start()
			return func(res simrt.RunResult) []simrt.Violation {
				v := &vio{}
				if st.newErr != nil {
					v.add("harness", "client construction failed: %v", st.newErr)
					return v.list
				}
				oracle(st, v)
				st.reachProbes()
				return v.list
			}
		},
	}
}

func init() {
	for _, p := range []proto{v4proto{}, v6proto{}} {
		n := p.Name()
		register(ccScenario("c10-"+n, "C10", p, genRouting, (*ccState).oracleRouting))
		register(ccScenario("c11-"+n, "C11", p, genLiveness, (*ccState).oracleLiveness))
		sc := ccScenario("c12-"+n, "C12", p, genRetry, func(st *ccState, v *vio) {
			st.oracleRetry(v)
		})
		sc.Grid = len(retryGrid())
		register(sc)
	}
	_ = fmt.Sprint
}
