#!/bin/bash
# regress.sh: re-run the quick tier against every kept seeded change (expected: exit 1)
# and every neutral patch (expected: exit 0). Prints one line each; exit 1 if any differs.
cd "$(dirname "$0")/.." || exit 2
V="$(pwd)"
bad=0
run() { # patch prop expected
  out=$(./dsim/try_mutant.sh "$1" "$2" quick 2>&1); rc=$?
  rules=$(echo "$out" | grep -o "rule [A-Za-z0-9-]*" | sort -u | tr '\n' ' ')
  st=ok; [ "$rc" = "$3" ] || { st=UNEXPECTED; bad=1; }
  echo "$st exit=$rc want=$3 $2 $1 $rules"
}
for d in seeded/*/; do
  id=$(basename "$d"); prop=${id%%-*}
  run "$V/${d}patch.diff" "$prop" 1
done
for p in mutants/*.patch; do
  n=$(basename "$p" .patch)
  case "$n" in
    neutral-c10-*) run "$V/$p" C10 0;; neutral-c11-*) run "$V/$p" C11 0;; neutral-c12-*) run "$V/$p" C12 0; run "$V/$p" C11 0;; neutral-c13-*) run "$V/$p" C13 0;; neutral-c14-*) run "$V/$p" C14 0;; neutral-c18-*) run "$V/$p" C18 0;;
    c14-rbuf-reused) run "$V/$p" C14 0;;
    revert-F1) run "$V/$p" C10 1;; revert-F2) run "$V/$p" C11 1; run "$V/$p" C12 1;; revert-F3) run "$V/$p" C18 1;; revert-F4) run "$V/$p" C08 1;;
    c10-*) run "$V/$p" C10 1;; c11-*) run "$V/$p" C11 1;; c12-*) run "$V/$p" C12 1;; c13-*) run "$V/$p" C13 1;; c18-*) run "$V/$p" C18 1;; c08-*) run "$V/$p" C08 1;; c14-*) run "$V/$p" C14 1;;
  esac
done
exit $bad
