#!/bin/bash
# regress.sh: re-run the quick tier against every kept seeded change (expected: exit 1)
# and every neutral patch (expected: exit 0; neutral/<id>/meta.json may name another property
# whose check rightly objects). Prints one line each; exit 1 if any differs.
# REGRESS_PAR jobs run side by side (default 4), each with DSIM_WORKERS workers (default 4).
cd "$(dirname "$0")/.." || exit 2
V="$(pwd)"
PAR="${REGRESS_PAR:-4}"
export DSIM_WORKERS="${DSIM_WORKERS:-4}"
jobs=$(mktemp)
add() { echo "$1 $2 $3" >> "$jobs"; } # patch prop expected
for d in seeded/*/; do
  id=$(basename "$d"); prop=${id%%-*}
  add "$V/${d}patch.diff" "$prop" 1
done
# independent property-preserving changes (wave 9): meta.json says which checks must stay quiet (0)
# and which other property's check rightly objects (1)
for d in neutral/*/; do
  [ -f "${d}meta.json" ] || continue
  python3 -c 'import json,sys; [print(k,v) for k,v in json.load(open(sys.argv[1]))["expect"].items()]' "${d}meta.json" | while read prop want; do
    add "$V/${d}patch.diff" "$prop" "$want"
  done
done
for p in mutants/*.patch; do
  n=$(basename "$p" .patch)
  case "$n" in
    neutral-c10-*) add "$V/$p" C10 0; [ "$n" = neutral-c10-nclient6-polling-read-deadline ] && add "$V/$p" C11 0;; neutral-c11-*) add "$V/$p" C11 0;; neutral-c12-*) add "$V/$p" C12 0; add "$V/$p" C11 0;; neutral-c13-*) add "$V/$p" C13 0;; neutral-c14-*) add "$V/$p" C14 0;; neutral-c18-*) add "$V/$p" C18 0;;
    c14-rbuf-reused) add "$V/$p" C14 0;;
    revert-F1) add "$V/$p" C10 1;; revert-F2) add "$V/$p" C11 1; add "$V/$p" C12 1;; revert-F3) add "$V/$p" C18 1;; revert-F4) add "$V/$p" C08 1;;
    c10-*) add "$V/$p" C10 1;; c11-*) add "$V/$p" C11 1;; c12-*) add "$V/$p" C12 1;; c13-*) add "$V/$p" C13 1;; c18-*) add "$V/$p" C18 1;; c08-*) add "$V/$p" C08 1;; c14-*) add "$V/$p" C14 1;;
  esac
done
one() { # patch prop expected
  t=$(mktemp -d "${TMPDIR:-/tmp}/regress-XXXXXX")
  out=$(TMPDIR="$t" "$V/dsim/try_mutant.sh" "$1" "$2" quick 2>&1); rc=$?
  rm -rf "$t"
  rules=$(echo "$out" | grep -o "rule [A-Za-z0-9-]*" | sort -u | tr '\n' ' ')
  st=ok; [ "$rc" = "$3" ] || st=UNEXPECTED
  echo "$st exit=$rc want=$3 $2 $1 $rules"
}
export -f one; export V
out=$(mktemp)
xargs -P "$PAR" -L 1 bash -c 'one "$0" "$1" "$2"' < "$jobs" | tee "$out"
bad=$(grep -c "^UNEXPECTED" "$out")
echo "regress: $(wc -l < "$out") runs, $bad unexpected"
rm -f "$jobs" "$out"
[ "$bad" = 0 ]
