#!/bin/bash
# mutation_campaign.sh [parallelism]: the ten mutation.sh invocations behind DESIGN.md §10.3.
cd "$(dirname "$0")" || exit 2
P="${1:-3}"
# SURV=1: only re-run what the existing reports in ../mutation list as SURVIVED (after the checks were strengthened)
surv() { [ "${SURV:-}" = 1 ] && echo "../mutation/$1" || echo ""; }
[ "${SURV:-}" = 1 ] && cp ../mutation/dhcpv4_nclient4_client.go.core.tsv /tmp/.surv_$$.tsv; ONLY_SURVIVORS=$([ "${SURV:-}" = 1 ] && echo /tmp/.surv_$$.tsv) ./mutation.sh dhcpv4/nclient4/client.go "receiveLoop,send,SendAndRead,retryFn,Close,isClosed" "$P" C10 C11 C12
mv ../mutation/dhcpv4_nclient4_client.go.tsv ../mutation/dhcpv4_nclient4_client.go.core.tsv
ONLY_SURVIVORS=$(surv dhcpv6_nclient6_client.go.tsv) ./mutation.sh dhcpv6/nclient6/client.go "receiveLoop,send,SendAndRead,retryFn,Close,RapidSolicit,Solicit,Request" "$P" C10 C11 C12 C13
[ "${SURV:-}" = 1 ] && cp ../mutation/dhcpv4_nclient4_client.go.exchange.tsv /tmp/.surv_$$.tsv; ONLY_SURVIVORS=$([ "${SURV:-}" = 1 ] && echo /tmp/.surv_$$.tsv) ./mutation.sh dhcpv4/nclient4/client.go "DiscoverOffer,Request,RequestFromOffer,IsMessageType,IsCorrectServer,IsAll" "$P" C13
mv ../mutation/dhcpv4_nclient4_client.go.tsv ../mutation/dhcpv4_nclient4_client.go.exchange.tsv
ONLY_SURVIVORS=$(surv dhcpv4_nclient4_lease.go.tsv) ./mutation.sh dhcpv4/nclient4/lease.go "Release,Renew" "$P" C13
ONLY_SURVIVORS=$(surv dhcpv4_modifiers.go.tsv) ./mutation.sh dhcpv4/modifiers.go "" "$P" C13
ONLY_SURVIVORS=$(surv dhcpv6_dhcpv6message.go.tsv) ./mutation.sh dhcpv6/dhcpv6message.go "NewSolicit,NewRequestFromAdvertise,NewAdvertiseFromSolicit" "$P" C13
ONLY_SURVIVORS=$(surv dhcpv4_nclient4_conn_unix.go.tsv) ./mutation.sh dhcpv4/nclient4/conn_unix.go "ReadFrom,WriteTo,udpMatch" "$P" C18
ONLY_SURVIVORS=$(surv dhcpv4_nclient4_ipv4.go.tsv) ./mutation.sh dhcpv4/nclient4/ipv4.go "" "$P" C18
ONLY_SURVIVORS=$(surv dhcpv4_server4_server.go.tsv) ./mutation.sh dhcpv4/server4/server.go "Serve,Close" "$P" C14
ONLY_SURVIVORS=$(surv dhcpv6_server6_server.go.tsv) ./mutation.sh dhcpv6/server6/server.go "Serve,Close" "$P" C14
